#!/usr/bin/env python3
"""keep a confirmed seeded change: keep_seed.py <seed-id> <property> <worktree> <caught_by(comma sep, or 'none')> <needs...>"""
import sys, os, shutil, json, subprocess
sid, prop, wt, caught = sys.argv[1:5]
needs = " ".join(sys.argv[5:])
d = f"/verif/seeded/{sid}"
os.makedirs(d, exist_ok=True)
shutil.copy(f"{wt}/patch.diff", f"{d}/patch.diff")
shutil.copy(f"{wt}/yrs/tests/seed_demo.rs", f"{d}/seed_demo.rs")
for f in ("NOTES.md", "CONFIRM.log"):
    if os.path.exists(f"{wt}/{f}"):
        shutil.copy(f"{wt}/{f}", f"{d}/{f}")
confirm = open(f"{wt}/CONFIRM.log").read() if os.path.exists(f"{wt}/CONFIRM.log") else ""
meta = {
    "seed_id": sid,
    "property": prop,
    "needs_to_manifest": needs,
    "author": "independent sub-agent given only the property text and a scratch worktree",
    "confirmed": {
        "how": "tools/confirm_seed.sh in the scratch worktree: demo with/without the change, yrs lib+doc tests (features weak) with the change",
        "log": confirm,
    },
    "caught_by": [] if caught == "none" else caught.split(","),
    "ran": f"tools/try_seed.sh seeded/{sid}/patch.diff <checks> (git -C /repo apply; ./check <ID> quick; git -C /repo checkout -- .)",
}
json.dump(meta, open(f"{d}/meta.json", "w"), indent=1)
print("kept", d)
