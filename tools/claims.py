claim("C03",
      "bounded-exhaustive enumeration of API programs on the real Doc against a sequential reference model",
      "Every program of <= L calls (quick L=3..4, thorough L=4..6) per family (plain/rich/unicode text, array, map, xml, nested), every commit grouping, both offset kinds, gc on/off, is executed on a real yrs Doc; after every call and commit all roots are read back and compared with a Vec/BTreeMap/tree model. Exhaustive within the alphabet and depth; says nothing beyond them.",
      "trusts the reference model in harness/src/ops.rs (apply_model) and the visible dump (harness/src/dump.rs); positions restricted to {0,mid,end}; one attribute key per call",
      "DESIGN.md 4/C03")
claim("C01",
      "bounded-exhaustive enumeration of multi-replica histories on real Docs + subset-lattice exploration of every delivery order with bounded deviations",
      "All histories of L local operations (quick L=3..4, thorough L=4..5) on 2..3 real replicas with every placement of causal syncs are executed and state-matched on the canonical internal dump; for every distinct update pool every delivery order (graph over delivered set x internal state x deviations used) to fresh observers (gc on/off) and to the author replicas is explored with <= B deviations (duplicate, v2 link, merge_updates, diff_updates, relay via full-state export). Verdict: at every causally closed delivered set nothing is pending and content is path-independent and equal to an author with the same knowledge; at the full set content, state vector and pending-ness equal the in-order reference.",
      "happened-before tracked by the harness; visible dump via public read API; bounded alphabets (positions {0,mid,end}), <= 3 replicas, <= 6 updates per pool",
      "DESIGN.md 4/C01")
claim("C02",
      "subset-lattice exploration of every delivery order of real update pools, pending-ness judged at every node against a dependency fixed point",
      "Same histories and lattices as C01 restricted to dependency-rich families; at EVERY lattice node has_missing_updates() must equal 'some delivered block lacks an origin/right-origin/parent/quoted id or a delivered deletion targets an absent id' (least fixed point over the decoded updates' dependency ids, from the verif hook); relay deviation (full-state export of a gapped replica into a fresh one, then the withheld updates) must reach the reference content, state vector and no pending.",
      "dependency ids trusted from yrs::verif::update_dump; bounded alphabets; <= 2 replicas quick",
      "DESIGN.md 4/C02")
claim("C04",
      "bounded-exhaustive history enumeration + subset-lattice delivery with an element-identity monitor on every state",
      "C01-style histories over text / array / xml children with uniquely tagged elements on 2..3 real replicas; on every author state along the history and every lattice node (every delivery order): an element is visible iff its id is integrated (hook dump) and no delivered update deletes it, never twice; a global before(x,y) relation fixed the first time two elements are visible together (which includes the author's state right after each insertion, so neighbour placement and multi-element order are pinned) holds in every later state of every replica.",
      "element identity by unique tag content; tag->id from the verif hook's store dump; undo/redo excluded (C12)",
      "DESIGN.md 4/C04")
claim("C05",
      "bounded-exhaustive history enumeration (every happened-before shape among <= L operations on a key, every client-id order) + subset-lattice delivery with a causal-LWW monitor",
      "Histories of set/remove/clear on two keys of a root map (and nested containers) on 2..3 real replicas with every sync placement; at every replica state with nothing pending the value of each key must be absent or written by a causally maximal write, absent only if a maximal removal exists, and a maximal write without a concurrent sibling write must win; every integrated item below a deleted container item must be deleted.",
      "happened-before tracked by the harness; the tie-break between concurrent sibling writes is left free (reading recorded in DESIGN.md)",
      "DESIGN.md 4/C05")
claim("C17",
      "bounded-exhaustive history enumeration + subset-lattice delivery; pairwise comparison of all public read accessors on every visited state",
      "Every replica state reached by C01-style histories over all families (incl. unicode and rich text, nested types, xml), Bytes and Utf16 offsets, gc on/off, and by every delivery order of their update pools (incl. states with stashed updates) is read through every public accessor of every live type; len/iter/get/to_json, get_string/diff/len, keys/values/iter/contains_key/get, xml children/first_child/get/siblings/parent/successors and the rendered string parsed back must agree.",
      "types read through the API of their own kind; tiny XML reader in the harness (harness/src/reads.rs)",
      "DESIGN.md 4/C17")
claim("C13",
      "bounded-exhaustive history enumeration on gc-disabled real replicas; every (snapshot point i, later point j) pair restored and compared",
      "All histories (quick L=3..4, thorough L=4..5; families txt/rtx/uni/arr/map/nest/xml; 1..2 replicas with causal syncs) are executed; a snapshot and the visible dump are recorded after every prefix, and at every later state encode_state_from_snapshot (v1 and v2) is applied to a fresh document whose dump must equal the recorded one; snapshot encode/decode round-trips; a gc-enabled twin must refuse with an error.",
      "snapshots taken without pending updates; restore target has formatting clean-up off",
      "DESIGN.md 4/C13")
claim("C16",
      "complete enumeration of a bounded universe: BFS over construction sequences + every ordered pair of values, against a bit-set model, with a canonical-form oracle",
      "Universe 2 clients x clocks 0..N (quick N=3..4, thorough N=5: 4096^2 = 16.8M pairs). Every construction sequence of <= k operations (BFS on set values), every ordered pair of sets for the binary operations, every IdMap value over attributes {A,B} (BFS + every pair), from_iter over every <= 2-range list, and snapshot().delete_set against the hook dump on every document state of txt/map/nest histories; each result must equal the model point-wise AND be in canonical form (sorted, disjoint, non-empty, coalesced, no empty client entry, equal sets ==/hash/encode equal).",
      "model is BTreeSet/BTreeMap of points; IdMap attribute values fixed strings",
      "DESIGN.md 4/C16")
claim("C06",
      "bounded-exhaustive enumeration of world states (histories with causal syncs and out-of-order single-update deliveries) x every ordered replica pair x every legitimate state vector x encodings",
      "Every world state reached by histories of L local ops on 2 real replicas with causal syncs and up to P gap-creating deliveries (states with stashed updates, Skips, gc'd ranges) is rebuilt per variant; for each ordered pair (A,B), each state vector B could send (current or any earlier one) and encode_diff/encode_state_as_update in v1/v2: B applies A's answer; dominance, monotonicity, deletions, idempotent re-application, no-op self-diff and convergence of a ping-pong to a fixpoint are checked.",
      "stale state vectors are earlier ones of the same replica; 16 rounds stand for non-termination",
      "DESIGN.md 4/C06")
claim("C07",
      "bounded-exhaustive enumeration of transaction sequences on an emitting document with passive followers fed only by its v1 / v2 update events",
      "All sequences of <= L actions (local ops on D, ops on a remote author E, E syncing from D, deliveries of E's updates to D in any order incl. duplicates, gaps and merges, undo, redo, forced gc) are executed on real documents, state-matched on all internal dumps; after every D transaction the emitted events are applied to followers F1 (v1 only) and F2 (v2 only) whose content, state vector and delete set must equal D's; per transaction #v1 == #v2 <= 1, one if D changed, none if D's internal state did not.",
      "remote applies use a non-tracked origin; followers share D's gc setting and have clean-up off",
      "DESIGN.md 4/C07")
claim("C08",
      "bounded-exhaustive enumeration of update selections drawn from real histories; algebraic laws judged by differential application on real documents",
      "For every distinct pool of C01-style histories (incl. gc'd authors, out-of-order deliveries) extended with the authors' full states and mutual diffs, EVERY ordered selection of <= 3 payloads (with repetition) is checked: merge vs one-by-one application (empty doc and author end states), every argument order and both nestings of the merge, diff_updates against the state vector of the prefix document, encode_state_vector_from_update, in v1 and v2 and v1-merge vs v2-merge. Two narrow known findings (transient differences while a gap is open) are reported as KNOWN-FINDING; anything surviving completion or occurring without a gap is a violation.",
      "effect = visible dump + state vector + has_missing_updates; authors run without formatting clean-up",
      "DESIGN.md 4/C08")
claim("C15",
      "bounded-exhaustive lock-step exploration of twin worlds that differ only in the gc assignment, forced gc as an action",
      "Every history (ops with deletions, causal syncs, forced gc at every point) over txt/rtx/arr/map/nest/xml is executed in lock-step on an all-gc-off reference world and on one world per other gc assignment of the R replicas; after every step corresponding replicas must show equal content (covers gc<->non-gc sync in both directions and forced gc), and a document rebuilt from each gc'd replica's full state (v1/v2) must equal it. A second exploration runs a document with an UndoManager against a gc-off twin over {op, forced gc, undo, redo}: undo/redo after collection must restore the same content.",
      "reference world never collects; state-matched on the internal dumps of all worlds",
      "DESIGN.md 4/C15")
claim("C12",
      "bounded-exhaustive enumeration of action sequences on a real document with an UndoManager, judged by a snapshot-stack model and locality monitors",
      "All sequences of <= L actions (quick L=4..7, thorough L=5..9) from {tracked edit, clock tick, untracked-origin edit, tracked edit on an unscoped type, remote edit, undo, redo} over txt/rtx/arr/map/nest/xml are executed with a controlled clock and state-matched; an undo/redo that pops k capture steps must reproduce the snapshot k boundaries back when no foreign origin edited in between, a fresh tracked edit clears the redo stack, foreign elements stay visible in order, unscoped types are untouched, and a replica fed only by update events converges after every step.",
      "capture grouping via controlled clock (timeout 10, tick 100); foreign elements identified by unique tags; nested/xml families exempt from the flat foreign-order check",
      "DESIGN.md 4/C12")
claim("C11",
      "bounded-exhaustive enumeration of transaction sequences on an observed real document; shadow copies maintained only from the reported edit scripts",
      "All action sequences with <= L operations (local transactions with every mix of 1..3 ops incl. insert-then-delete, a remote author, E syncing from D, deliveries of E's updates in any order incl. gaps) over txt/rtx/uni/arr/map/nest/xml with Bytes and Utf16 offsets are executed; observers on every root and deep observers on array/map/xml roots evaluate delta()/keys()/path() inside the callback; the shadow of every observer, updated only by applying the scripts (deep events at their paths), must equal the content after every transaction; at most one event per observer and transaction; none for unchanged types (one narrow known finding: empty scripts for transactions without net visible effect).",
      "direct observers compared shallowly, deep ones fully; old values compared by kind for containers (they are read after the transaction)",
      "DESIGN.md 4/C11")
claim("C14",
      "bounded-exhaustive history enumeration + subset-lattice delivery; every (creation point, index, association) x every later replica state",
      "For every prefix of every visited history over txt/uni/arr/xml-children (Bytes and Utf16 offsets, 2..3 replicas) a sticky index is created at every index with both associations (plus type-scoped ones), round-tripped through binary and JSON, its anchor checked, and then resolved on every later state of every replica and on every lattice node of the final pool that has integrated the anchor; the offset must equal the tombstone-aware position computed from the hook's item sequence.",
      "expected positions from the verif hook's item sequence; anchors inside deleted containers out of scope",
      "DESIGN.md 4/C14")
claim("C20",
      "bounded-exhaustive enumeration of edit/quote/sync sequences on two real replicas + subset-lattice delivery, dereference judged against the tombstone-aware item sequence",
      "All sequences with <= L operations (quick 4, thorough 5..6) from {edits on the source at {0,mid,end}, quoting every range kind over the current elements (array and text) or linking a map entry, overwriting/removing the linked entry, deleting the quotation, causal syncs} are executed and state-matched; after every step on every replica holding the quotation, and on every lattice node of the final pool for a fresh replica, unquote/get_string/try_deref_value must equal the visible elements between the boundary ids in the hook's item sequence; at quoting time the author must see exactly the requested slice; deleting the quotation must not change the source; the quotation's observer must fire when its content changes. Six narrow known findings (block-granular dereference when a boundary is inside a block; five gaps of the link bookkeeping behind observers) are reported as KNOWN-FINDING with structural predicates.",
      "ranges that are empty when quoted are out of scope; expected ranges from the verif hook's item sequence",
      "DESIGN.md 4/C20")
claim("C09",
      "complete enumeration of a value grammar up to a size bound (independent lib0-v1 writer) + every payload of bounded real histories + the Yjs corpus embedded in the repository; differential round-trip oracles",
      "Every Any tree of <= 3 nodes over 40 boundary leaves; every update built by the harness's own lib0-v1 writer over all block kinds x all content kinds x origin/parent combinations x 1..2 clients (structure compared with the description via the hook dump, byte-identical v1 re-encoding, v1->v2->v1, equal effect of the v1 and v2 form on a document); every update / full state / state vector / snapshot of C01-style histories of all families; every Message / SyncMessage / AwarenessUpdate shape incl. Custom tags 4..255 and length classes, v1 and v2; the Yjs-generated byte literals of the repository's compatibility tests. One narrow known finding (YXmlHook content).",
      "structural equality via the verif hook dump; JSON-carried values (Embed/Format) compared after JSON normalisation; multi-key maps exempt from byte identity (hash order)",
      "DESIGN.md 4/C09")
claim("C10",
      "complete enumeration of bounded input spaces (every byte string up to a length; every single-point mutation of a corpus of every wire type) fed to every decoder entry point in crash-isolated workers with a counting, capping allocator",
      "21 entry points (Update v1/v2, StateVector, Snapshot v1/v2, IdSet v1/v2, IdMap, Any binary and JSON, StickyIndex binary and JSON, MessageReader, AwarenessUpdate, merge_updates v1/v2, diff_updates v1/v2 as update and as state vector, encode_state_vector_from_update v1/v2). Inputs: EVERY byte string of length <= 2 (quick) / <= 3 (thorough, 16.8M); for every payload of a corpus of valid payloads of every wire type: every truncation, every single-byte replacement (position x 256 values), every position overwritten by each of 8 extreme var-int encodings, every prefix(A)+suffix(B) splice within a wire type; hand-made structural extremes (nesting 10^5, counts 2^32-1 without data, v2 run-length expansion). Per call: Ok or Err, no panic (overflow checks and debug assertions on), no abort / stack overflow (worker death is attributed to the journalled input), peak heap <= 256 B per input byte + 1 MiB, <= 2 s, strings valid UTF-8, an Ok value encodes again (v1, v2) without panic. One known finding (v2 run-length expansion, identified by input).",
      "memory bound 256 B/byte + 1 MiB is this harness's reading of 'disproportionate'; the re-encoding step runs outside the memory oracle",
      "DESIGN.md 4/C10")
claim("C18",
      "explicit-state search over all interleavings of a two-peer y-sync session on real documents (trace-rebuilt states, state-matched on internal dumps and channel contents) + BFS over awareness register states re-materialised on real Awareness instances",
      "Handshake: two peers (Awareness + DefaultProtocol on real Docs, both client-id orders, gc on/off) over two FIFO byte channels; every prior divergence of <= P edits (quick 1..2, thorough 2..3) with optional full / one-way syncs; then EVERY interleaving of Connect(p) (Protocol::start), Recv(p) (Protocol::handle + replies), Edit(p, op) (<= 1..2, forwarded as Update), AwSet(p). Every payload crossing a channel is decoded with MessageReader, re-encoded and decoded again. At every quiescent state: equal documents, state vectors, awareness registers, nothing pending. Awareness: 2..3 real Awareness instances with a controlled clock; BFS to depth 6..10 over set / clean / time-out / emit (update, update_with_clients) / deliver-any-pooled-update-to-any-peer; per delivery: clock monotone per client, lower clock changes nothing, higher clock wins, own live state never erased, idempotent; per state: every ordered pair of pooled updates commutes on every peer; at the deepest level all permutations of all <= 4-subsets; full exchange settles and all peers agree.",
      "time-outs only for clients known as live; JSON null as a local state excluded; updates emitted while applying remote messages are not echoed (families without formatting clean-up)",
      "DESIGN.md 4/C18")
