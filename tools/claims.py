claim("C03",
      "bounded-exhaustive enumeration of API programs on the real Doc against a sequential reference model",
      "Every program of <= L calls (quick L=3..4, thorough L=4..6) per family (plain/rich/unicode text, array, map, xml, nested), every commit grouping, both offset kinds, gc on/off, is executed on a real yrs Doc; after every call and commit all roots are read back and compared with a Vec/BTreeMap/tree model. Exhaustive within the alphabet and depth; says nothing beyond them.",
      "trusts the reference model in harness/src/ops.rs (apply_model) and the visible dump (harness/src/dump.rs); positions restricted to {0,mid,end}; one attribute key per call",
      "DESIGN.md 4/C03")
