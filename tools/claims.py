claim("C03",
      "bounded-exhaustive enumeration of API programs on the real Doc against a sequential reference model",
      "Every program of <= L calls (quick L=3..4, thorough L=4..6) per family (plain/rich/unicode text, array, map, xml, nested), every commit grouping, both offset kinds, gc on/off, is executed on a real yrs Doc; after every call and commit all roots are read back and compared with a Vec/BTreeMap/tree model. Exhaustive within the alphabet and depth; says nothing beyond them.",
      "trusts the reference model in harness/src/ops.rs (apply_model) and the visible dump (harness/src/dump.rs); positions restricted to {0,mid,end}; one attribute key per call",
      "DESIGN.md 4/C03")
claim("C01",
      "bounded-exhaustive enumeration of multi-replica histories on real Docs + subset-lattice exploration of every delivery order with bounded deviations",
      "All histories of L local operations (quick L=3..4, thorough L=4..5) on 2..3 real replicas with every placement of causal syncs are executed and state-matched on the canonical internal dump; for every distinct update pool every delivery order (graph over delivered set x internal state x deviations used) to fresh observers (gc on/off) and to the author replicas is explored with <= B deviations (duplicate, v2 link, merge_updates, diff_updates, relay via full-state export). Verdict: at every causally closed delivered set nothing is pending and content is path-independent and equal to an author with the same knowledge; at the full set content, state vector and pending-ness equal the in-order reference.",
      "happened-before tracked by the harness; visible dump via public read API; bounded alphabets (positions {0,mid,end}), <= 3 replicas, <= 6 updates per pool",
      "DESIGN.md 4/C01")
claim("C02",
      "subset-lattice exploration of every delivery order of real update pools, pending-ness judged at every node against a dependency fixed point",
      "Same histories and lattices as C01 restricted to dependency-rich families; at EVERY lattice node has_missing_updates() must equal 'some delivered block lacks an origin/right-origin/parent/quoted id or a delivered deletion targets an absent id' (least fixed point over the decoded updates' dependency ids, from the verif hook); relay deviation (full-state export of a gapped replica into a fresh one, then the withheld updates) must reach the reference content, state vector and no pending.",
      "dependency ids trusted from yrs::verif::update_dump; bounded alphabets; <= 2 replicas quick",
      "DESIGN.md 4/C02")
