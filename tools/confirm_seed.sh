#!/bin/bash
# confirm a seeded change in its scratch worktree: demo fails with it / passes without it; existing suite still passes
# usage: confirm_seed.sh <worktree>
WT=$1
cd $WT || exit 2
LOG=$WT/CONFIRM.log
: > $LOG
FEAT=""
grep -q "weak" yrs/tests/seed_demo.rs 2>/dev/null && FEAT="--features weak"
echo "== demo WITH change" >> $LOG
cargo test -p yrs --offline $FEAT --test seed_demo 2>&1 | grep -E "^test |test result" >> $LOG
# (no git stash: the stash is shared by all worktrees of a repository)
git diff -- yrs/src yffi/src > $WT/.current.diff
git apply -R $WT/.current.diff
echo "== demo WITHOUT change" >> $LOG
cargo test -p yrs --offline $FEAT --test seed_demo 2>&1 | grep -E "^test |test result" >> $LOG
git apply $WT/.current.diff
echo "== suite WITH change" >> $LOG
cargo test -p yrs --offline --features weak --lib 2>&1 | grep -E "FAILED|failed|test result" >> $LOG
cargo test -p yrs --offline --features weak --doc 2>&1 | grep -E "FAILED|failed|test result" >> $LOG
echo "== done" >> $LOG
