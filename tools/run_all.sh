#!/bin/bash
# run every claimed check (tier $1, default quick) on /repo as it is; validate evidence
TIER=${1:-quick}
cd /verif
rc=0
for id in $(python3 -c "import json; print(' '.join(c['property_id'] for c in json.load(open('/verif/MANIFEST.json'))['checks']))"); do
  s=$(date +%s)
  out=$(./check $id $TIER 2>&1); code=$?
  e=$(( $(date +%s) - s ))
  echo "$id exit=$code ${e}s $(echo "$out" | grep -E '^\[' | cut -c1-160)"
  echo "$out" | grep -E "VIOLATION|KNOWN-FINDING|MACHINERY" | cut -c1-300 | head -5
  [ $code -ne 0 ] && rc=1
done
python3-vt - <<'PY'
import json, jsonschema, glob
sch = json.load(open('/root/.vp/EVIDENCE.schema.json'))
m = json.load(open('/verif/MANIFEST.json'))
jsonschema.validate(m, json.load(open('/root/.vp/MANIFEST.schema.json')))
for c in m['checks']:
    try:
        jsonschema.validate(json.load(open(c['evidence_file'])), sch)
    except Exception as e:
        print("EVIDENCE INVALID", c['property_id'], str(e)[:200])
print("schemas checked")
PY
exit $rc
