#!/bin/bash
# apply a seeded patch to /repo, run the given checks (quick unless TIER set), undo.  usage: try_seed.sh <patch> <ID>...
P=$1; shift
cd /repo && git apply $P || { echo "patch does not apply"; exit 2; }
for id in "$@"; do
  ( cd /verif && ./check $id ${TIER:-quick} 2>&1 | grep -E "^\[|VIOLATION|KNOWN|MACHINERY" | cut -c1-420 | head -${LINES_MAX:-6} )
done
cd /repo && git checkout -- . && git status --short | head -3
