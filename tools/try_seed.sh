#!/bin/bash
# apply a seeded patch to /repo, run the given checks (quick unless TIER set), undo; evidence files are restored.
# usage: try_seed.sh <patch> <ID>...
P=$1; shift
rm -rf /verif/target/evidence.bak && cp -r /verif/evidence /verif/target/evidence.bak
cd /repo && git apply $P || { echo "patch does not apply"; exit 2; }
for id in "$@"; do
  ( cd /verif && ./check $id ${TIER:-quick} 2>&1 | grep -E "^\[|VIOLATION|KNOWN|MACHINERY" | cut -c1-420 | head -${LINES_MAX:-6} )
done
cd /repo && git checkout -- . && git status --short | head -3
rm -rf /verif/evidence && mv /verif/target/evidence.bak /verif/evidence
