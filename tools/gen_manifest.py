#!/usr/bin/env python3
"""Regenerates /verif/MANIFEST.json from the table below (keeps it valid at all times)."""
import json, subprocess, sys

BASE_OFF = ("cd /repo && cargo nextest run --workspace --no-fail-fast --tool-config-file pb:/w/lib/nextest.toml "
            "--profile pb --test-threads 8 --offline || cargo test --workspace --no-fail-fast --offline")

# id -> (technique, level text, level note, design ref)
CHECKS = {}
NOT_YET = {}

def claim(pid, technique, text, note, ref):
    CHECKS[pid] = (technique, text, note, ref)

exec(open('/verif/tools/claims.py').read())

props = [json.loads(l)['id'] for l in open('/verif/properties.jsonl')]
hook_commits = [l.strip() for l in open('/verif/tools/hook_commits.txt') if l.strip()]
m = {
    "version": 1,
    "setup_cmd": "cd /verif/harness && CARGO_NET_OFFLINE=true cargo build --release --offline",
    "hooks": {
        "guard": "y_crdt_y_crdt_verif",
        "enable": "RUSTFLAGS=\"--cfg y_crdt_y_crdt_verif\" (set in /verif/harness/.cargo/config.toml; the harness has a path dependency on /repo/yrs and #[path]-includes /repo/yffi/src/lib.rs)",
        "baseline_off_cmd": BASE_OFF,
        "source_commits": hook_commits,
        "add_only": True,
    },
    "engines": [{
        "name": "yx",
        "path": "/verif/harness",
        "serves_properties": sorted(CHECKS.keys()),
        "kind_free_text": "in-house stateless explicit-state explorer: exhaustive bounded enumeration of operation sequences / delivery schedules / input values executed on the real yrs code in isolated worker processes, judged by reference models and algebraic laws",
    }],
    "checks": [],
    "not_applicable": [],
    "notes": "All checks: ./check <ID> quick|thorough; exit 0 held / 1 VIOLATION / 2 machinery failure. Known findings: /verif/known_findings.txt. See DESIGN.md.",
}
for pid in props:
    if pid in CHECKS:
        tech, text, note, ref = CHECKS[pid]
        m["checks"].append({
            "property_id": pid,
            "quick_cmd": f"./check {pid} quick",
            "thorough_cmd": f"./check {pid} thorough",
            "evidence_file": f"/verif/evidence/{pid}.json",
            "replay_cmd_template": "./check replay {path}",
            "engine": "yx",
            "level_claimed": {"category": "model_checking", "text": text, "design_ref": ref},
            "level_note": note,
            "technique": tech,
        })
    else:
        m["not_applicable"].append({"property_id": pid, "reason": NOT_YET.get(pid, "check not built yet in this revision (planned, see DESIGN.md section 4); not claimed")})
json.dump(m, open('/verif/MANIFEST.json', 'w'), indent=1)
print("claimed:", sorted(CHECKS.keys()))
