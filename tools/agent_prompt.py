#!/usr/bin/env python3
"""prints the sub-agent prompt for seeding a property-breaking change: only the property text + a scratch worktree"""
import json, sys
pid = sys.argv[1]; wt = sys.argv[2]
for l in open('/verif/properties.jsonl'):
    p = json.loads(l)
    if p['id'] == pid:
        break
print(f"""You are helping to test a verification effort for the Rust library y-crdt (yrs, the Rust port of the Yjs CRDT).
You work ONLY inside your own scratch git worktree of the repository at {wt} (it is a detached checkout; the crate sources are in {wt}/yrs, {wt}/yffi, {wt}/ywasm). Do not read or write anything under /repo or /verif, and do not touch other directories under /tmp. There is no network; use `cargo ... --offline`.

The property under study (this text is all you get about it):

  Title: {p['title']}
  Statement: {p['statement']}
  Quantified over: {p['quantifier']['text']}

Your job: produce ONE small, realistic change to the library sources (a plausible programmer mistake or "optimisation" - an off-by-one, a wrong comparison, a dropped branch, a mis-ordered step, a wrong variable, a stale cache...) that
  (a) still compiles,
  (b) still passes the repository's existing test suite, and
  (c) BREAKS the property above - but only under specific circumstances: it must need something particular to manifest (a particular interleaving / delivery order, a multi-step sequence of operations, an unusual input or configuration, or two cooperating code sites that each look fine alone). Changes that ordinary use would expose at once (e.g. every insert is broken) are NOT wanted, since the existing tests would catch them anyway.

Also produce a demonstration: a standalone integration test file {wt}/yrs/tests/seed_demo.rs (public API only; `use yrs::...`; features `weak` available via `--features weak` if you need them) with one or more #[test] functions that FAIL with your change applied and PASS on the unmodified sources.

How to check your work:
  * existing suite: `cd {wt} && cargo test -p yrs --offline --lib 2>&1 | tail -15`  (takes ~5-6 minutes; on the UNMODIFIED tree exactly one test fails, `tests::compatibility_tests::test_medium_data_set`, because an input asset is empty in this sandbox - that failure is expected and does not count; every other test must pass with your change. Doc tests: `cargo test -p yrs --offline --doc` must pass too.)
  * demo: `cd {wt} && cargo test -p yrs --offline --test seed_demo` must fail with the change and pass without it (to show both, save the source change with `git diff -- yrs/src yffi/src > my.patch`, undo it with `git apply -R my.patch`, and restore it with `git apply my.patch`; do NOT use `git stash` - the stash is shared with other worktrees of this repository that other people are using right now).
  * If your change is in yffi (the C API crate), say so; `cargo build -p yffi --offline` must succeed.

Iterate until (a), (b) and (c) all hold; if a candidate change is caught by the existing tests, pick a subtler one. Prefer changes in the core mechanism the property depends on. Keep the change minimal (ideally 1-10 lines).

When done, write these files:
  * {wt}/patch.diff : output of `git diff` for the library source change ONLY (not the demo file, not patch.diff itself), so that `git apply patch.diff` on a clean checkout reproduces it
  * {wt}/yrs/tests/seed_demo.rs : the demonstration
  * {wt}/NOTES.md : 5-15 lines: what the change is, why it breaks the property, what exactly is needed for it to manifest, and the commands you ran with their outcomes (suite with change: N passed / which failed; demo with and without change)
Leave the source change APPLIED in the worktree when you finish. In your final message, summarise the change, what it needs to manifest, and the verification results. Do not clean up the worktree.""")
