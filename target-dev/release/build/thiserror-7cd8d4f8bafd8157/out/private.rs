#[doc(hidden)]
pub mod __private18 {
    #[doc(hidden)]
    pub use crate::private::*;
}
