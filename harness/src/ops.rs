//! Operation alphabets ("families"): generation from the current visible state, execution on
//! the real document, execution on the reference model.
use crate::dump::*;
use crate::model::*;
use serde::{Deserialize, Serialize};
use std::collections::BTreeMap;
use std::sync::Arc;
use yrs::types::text::Text;
use yrs::types::{Attrs, Delta};
use yrs::{
    Any, Array, ArrayPrelim, ArrayRef, Doc, GetString, In, Map, MapPrelim, MapRef, OffsetKind, Out,
    ReadTxn, TextPrelim, TextRef, TransactionMut, Xml, XmlElementPrelim, XmlElementRef,
    XmlFragment, XmlFragmentRef, XmlOut, XmlTextPrelim, XmlTextRef,
};

#[derive(Clone, Debug, PartialEq, Eq, Hash, PartialOrd, Ord, Serialize, Deserialize)]
pub enum Seg {
    I(u32),
    K(String),
}

/// Address of a shared type: root name (`t` text, `a` array, `m` map, `x` xml fragment) + path.
#[derive(Clone, Debug, PartialEq, Eq, Hash, PartialOrd, Ord, Serialize, Deserialize)]
pub struct Tgt {
    pub root: char,
    pub path: Vec<Seg>,
}

impl Tgt {
    pub fn root(c: char) -> Tgt {
        Tgt {
            root: c,
            path: Vec::new(),
        }
    }
    pub fn child(&self, s: Seg) -> Tgt {
        let mut p = self.path.clone();
        p.push(s);
        Tgt {
            root: self.root,
            path: p,
        }
    }
}

#[derive(Clone, Debug, PartialEq, Eq, Hash, Serialize, Deserialize)]
pub enum Val {
    Any(AnyV),
    Map(Vec<(String, AnyV)>),
    Array(Vec<AnyV>),
    Text(String),
    XmlElem(String),
    XmlText(String),
}

impl Val {
    pub fn to_in(&self) -> In {
        match self {
            Val::Any(a) => In::Any(a.to_any()),
            Val::Map(kv) => In::Map(MapPrelim::from_iter(
                kv.iter().map(|(k, v)| (k.as_str(), In::Any(v.to_any()))),
            )),
            Val::Array(v) => In::Array(ArrayPrelim::from_iter(
                v.iter().map(|a| In::Any(a.to_any())),
            )),
            Val::Text(s) => In::Text(TextPrelim::new(s.as_str()).into()),
            Val::XmlElem(tag) => In::XmlElement(XmlElementPrelim::empty(tag.as_str())),
            Val::XmlText(s) => In::XmlText(XmlTextPrelim::new(s.as_str()).into()),
        }
    }
    pub fn to_node(&self) -> Node {
        match self {
            Val::Any(a) => Node::Any(a.clone()),
            Val::Map(kv) => Node::Map(
                kv.iter()
                    .map(|(k, v)| (k.clone(), Node::Any(v.clone())))
                    .collect(),
            ),
            Val::Array(v) => Node::Array(v.iter().map(|a| Node::Any(a.clone())).collect()),
            Val::Text(s) => Node::Text(plain_units(s, &AttrsV::new())),
            Val::XmlElem(tag) => Node::XmlElement {
                tag: tag.clone(),
                attrs: BTreeMap::new(),
                children: Vec::new(),
            },
            Val::XmlText(s) => Node::XmlText {
                attrs: BTreeMap::new(),
                units: plain_units(s, &AttrsV::new()),
            },
        }
    }
}

pub fn plain_units(s: &str, attrs: &AttrsV) -> Vec<Unit> {
    s.chars()
        .map(|c| Unit {
            c: UnitC::Ch(c),
            attrs: attrs.clone(),
        })
        .collect()
}

#[derive(Clone, Debug, PartialEq, Eq, Hash, Serialize, Deserialize)]
pub enum DOp {
    /// retain n units, optionally formatting them
    Retain(usize, Option<AttrsV>),
    Ins(String, Option<AttrsV>),
    Del(usize),
}

#[derive(Clone, Debug, PartialEq, Eq, Hash, Serialize, Deserialize)]
pub enum NKind {
    Map,
    Array,
    Text,
}

/// One API call. Sequence indices are in *units/elements*; they are converted to the
/// document's offset kind at execution time.
#[derive(Clone, Debug, PartialEq, Eq, Hash, Serialize, Deserialize)]
pub enum Op {
    TIns { t: Tgt, i: usize, s: String },
    TInsA { t: Tgt, i: usize, s: String, attrs: AttrsV },
    TEmbed { t: Tgt, i: usize, v: AnyV, attrs: Option<AttrsV> },
    /// embed a nested shared type (array / map / text prelim) as one unit of a text
    TEmbedT { t: Tgt, i: usize, v: Val },
    TFmt { t: Tgt, i: usize, n: usize, attrs: AttrsV },
    TDel { t: Tgt, i: usize, n: usize },
    TPush { t: Tgt, s: String },
    TDelta { t: Tgt, d: Vec<DOp> },
    AIns { t: Tgt, i: usize, v: Val },
    AInsRange { t: Tgt, i: usize, vs: Vec<AnyV> },
    /// one call inserting a mixed run of JSON-like values and shared types (C API: yarray_insert_range)
    AInsMixed { t: Tgt, i: usize, vs: Vec<Val> },
    APush { t: Tgt, v: Val },
    APushFront { t: Tgt, v: Val },
    ADel { t: Tgt, i: usize, n: usize },
    MSet { t: Tgt, k: String, v: Val },
    MDel { t: Tgt, k: String },
    MClear { t: Tgt },
    MTryUpdate { t: Tgt, k: String, v: AnyV },
    MGetOrInit { t: Tgt, k: String, kind: NKind },
    XIns { t: Tgt, i: usize, v: Val },
    XDel { t: Tgt, i: usize, n: usize },
    XAttr { t: Tgt, k: String, v: String },
    XAttrDel { t: Tgt, k: String },
    /// quote a range of the root array ('a') or root text ('t') and store it under `key` of the
    /// root map; bounds are (index, inclusive?) or None for unbounded
    Quote { t: Tgt, src: char, lo: Option<(u32, bool)>, hi: Option<(u32, bool)>, key: String },
    /// link the entry `k` of the root map and push the link to the end of the root array
    Link { t: Tgt, k: String },
}

impl Op {
    pub fn tgt(&self) -> &Tgt {
        match self {
            Op::TIns { t, .. }
            | Op::TInsA { t, .. }
            | Op::TEmbed { t, .. }
            | Op::TEmbedT { t, .. }
            | Op::TFmt { t, .. }
            | Op::TDel { t, .. }
            | Op::TPush { t, .. }
            | Op::TDelta { t, .. }
            | Op::AIns { t, .. }
            | Op::AInsRange { t, .. }
            | Op::AInsMixed { t, .. }
            | Op::APush { t, .. }
            | Op::APushFront { t, .. }
            | Op::ADel { t, .. }
            | Op::MSet { t, .. }
            | Op::MDel { t, .. }
            | Op::MClear { t }
            | Op::MTryUpdate { t, .. }
            | Op::MGetOrInit { t, .. }
            | Op::XIns { t, .. }
            | Op::XDel { t, .. }
            | Op::XAttr { t, .. }
            | Op::XAttrDel { t, .. }
            | Op::Quote { t, .. }
            | Op::Link { t, .. } => t,
        }
    }
    pub fn is_delete(&self) -> bool {
        matches!(
            self,
            Op::TDel { .. } | Op::ADel { .. } | Op::MDel { .. } | Op::MClear { .. } | Op::XDel { .. } | Op::XAttrDel { .. }
        )
    }
}

// ---------------------------------------------------------------------------------------------
// real execution

pub struct Roots {
    pub t: TextRef,
    pub a: ArrayRef,
    pub m: MapRef,
    pub x: XmlFragmentRef,
}

impl Roots {
    pub fn new(doc: &Doc) -> Roots {
        Roots {
            t: doc.get_or_insert_text("t"),
            a: doc.get_or_insert_array("a"),
            m: doc.get_or_insert_map("m"),
            x: doc.get_or_insert_xml_fragment("x"),
        }
    }
    pub fn root_out(&self, c: char) -> Out {
        match c {
            't' => Out::YText(self.t.clone()),
            'a' => Out::YArray(self.a.clone()),
            'm' => Out::YMap(self.m.clone()),
            _ => Out::YXmlFragment(self.x.clone()),
        }
    }
    pub fn resolve<T: ReadTxn>(&self, txn: &T, t: &Tgt) -> Option<Out> {
        let mut cur = self.root_out(t.root);
        for s in &t.path {
            cur = match (s, &cur) {
                (Seg::I(i), Out::YArray(a)) => a.get(txn, *i)?,
                (Seg::I(i), Out::YXmlFragment(f)) => xml_to_out(f.get(txn, *i)?),
                (Seg::I(i), Out::YXmlElement(f)) => xml_to_out(f.get(txn, *i)?),
                (Seg::K(k), Out::YMap(m)) => m.get(txn, k)?,
                _ => return None,
            };
        }
        Some(cur)
    }
    pub fn dump_all<T: ReadTxn>(&self, txn: &T) -> BTreeMap<char, Node> {
        let mut m = BTreeMap::new();
        m.insert('t', dump_text(txn, &self.t));
        m.insert('a', dump_array(txn, &self.a));
        m.insert('m', dump_map(txn, &self.m));
        m.insert('x', dump_xml_frag(txn, &self.x));
        m
    }
}

pub fn xml_to_out(x: XmlOut) -> Out {
    match x {
        XmlOut::Element(e) => Out::YXmlElement(e),
        XmlOut::Fragment(e) => Out::YXmlFragment(e),
        XmlOut::Text(e) => Out::YXmlText(e),
    }
}

pub fn to_attrs(a: &AttrsV) -> Attrs {
    a.iter()
        .map(|(k, v)| (Arc::<str>::from(k.as_str()), v.to_any()))
        .collect()
}

enum TextLike {
    T(TextRef),
    X(XmlTextRef),
}

macro_rules! with_text {
    ($tl:expr, $v:ident, $body:expr) => {
        match $tl {
            TextLike::T($v) => $body,
            TextLike::X($v) => $body,
        }
    };
}

fn as_text(o: &Out) -> Option<TextLike> {
    match o {
        Out::YText(t) => Some(TextLike::T(t.clone())),
        Out::YXmlText(t) => Some(TextLike::X(t.clone())),
        _ => None,
    }
}

/// Execute `op` through the public API inside `txn`. Returns Err if the target does not
/// resolve to a type of the right kind (the op is then not applicable — a harness-side
/// condition, not a verdict).
pub fn apply_real(
    roots: &Roots,
    txn: &mut TransactionMut,
    kind: OffsetKind,
    op: &Op,
) -> Result<(), String> {
    let tgt = roots
        .resolve(txn, op.tgt())
        .ok_or_else(|| format!("target {:?} does not resolve", op.tgt()))?;
    match op {
        Op::TIns { i, s, .. } => {
            let tl = as_text(&tgt).ok_or("not text")?;
            with_text!(tl, t, {
                let units = dump_units(txn, &t);
                t.insert(txn, unit_offset(&units, *i, kind), s)
            });
        }
        Op::TInsA { i, s, attrs, .. } => {
            let tl = as_text(&tgt).ok_or("not text")?;
            with_text!(tl, t, {
                let units = dump_units(txn, &t);
                t.insert_with_attributes(txn, unit_offset(&units, *i, kind), s, to_attrs(attrs))
            });
        }
        Op::TEmbed { i, v, attrs, .. } => {
            let tl = as_text(&tgt).ok_or("not text")?;
            with_text!(tl, t, {
                let units = dump_units(txn, &t);
                let off = unit_offset(&units, *i, kind);
                match attrs {
                    None => {
                        t.insert_embed(txn, off, v.to_any());
                    }
                    Some(a) => {
                        t.insert_embed_with_attributes(txn, off, v.to_any(), to_attrs(a));
                    }
                }
            });
        }
        Op::TEmbedT { i, v, .. } => {
            let tl = as_text(&tgt).ok_or("not text")?;
            with_text!(tl, t, {
                let units = dump_units(txn, &t);
                let off = unit_offset(&units, *i, kind);
                match v {
                    Val::Array(xs) => {
                        t.insert_embed(txn, off, ArrayPrelim::from_iter(xs.iter().map(|a| In::Any(a.to_any()))));
                    }
                    Val::Map(kv) => {
                        t.insert_embed(txn, off, MapPrelim::from_iter(kv.iter().map(|(k, v)| (k.as_str(), In::Any(v.to_any())))));
                    }
                    Val::Text(s) => {
                        t.insert_embed(txn, off, TextPrelim::new(s.as_str()));
                    }
                    _ => return Err("unsupported embedded type".into()),
                }
            });
        }
        Op::TFmt { i, n, attrs, .. } => {
            let tl = as_text(&tgt).ok_or("not text")?;
            with_text!(tl, t, {
                let units = dump_units(txn, &t);
                let off = unit_offset(&units, *i, kind);
                let len = unit_offset(&units, *i + *n, kind) - off;
                t.format(txn, off, len, to_attrs(attrs))
            });
        }
        Op::TDel { i, n, .. } => {
            let tl = as_text(&tgt).ok_or("not text")?;
            with_text!(tl, t, {
                let units = dump_units(txn, &t);
                let off = unit_offset(&units, *i, kind);
                let len = unit_offset(&units, *i + *n, kind) - off;
                t.remove_range(txn, off, len)
            });
        }
        Op::TPush { s, .. } => {
            let tl = as_text(&tgt).ok_or("not text")?;
            with_text!(tl, t, t.push(txn, s));
        }
        Op::TDelta { d, .. } => {
            let tl = as_text(&tgt).ok_or("not text")?;
            with_text!(tl, t, {
                let units = dump_units(txn, &t);
                let mut cur = 0usize;
                let mut delta: Vec<Delta<In>> = Vec::new();
                for o in d {
                    match o {
                        DOp::Retain(n, a) => {
                            let len = unit_offset(&units, cur + n, kind)
                                - unit_offset(&units, cur, kind);
                            cur += n;
                            delta.push(Delta::Retain(
                                len,
                                a.as_ref().map(|a| Box::new(to_attrs(a))),
                            ));
                        }
                        DOp::Ins(s, a) => delta.push(Delta::Inserted(
                            In::Any(Any::String(Arc::from(s.as_str()))),
                            a.as_ref().map(|a| Box::new(to_attrs(a))),
                        )),
                        DOp::Del(n) => {
                            let len = unit_offset(&units, cur + n, kind)
                                - unit_offset(&units, cur, kind);
                            cur += n;
                            delta.push(Delta::Deleted(len));
                        }
                    }
                }
                t.apply_delta(txn, delta)
            });
        }
        Op::AIns { i, v, .. } => {
            let Out::YArray(a) = tgt else { return Err("not array".into()) };
            a.insert(txn, *i as u32, v.to_in());
        }
        Op::AInsRange { i, vs, .. } => {
            let Out::YArray(a) = tgt else { return Err("not array".into()) };
            a.insert_range(txn, *i as u32, vs.iter().map(|v| v.to_any()).collect::<Vec<_>>());
        }
        Op::AInsMixed { i, vs, .. } => {
            let Out::YArray(a) = tgt else { return Err("not array".into()) };
            // consecutive JSON-like values go in as one range, shared types one by one
            let mut j = *i as u32;
            let mut k = 0;
            while k < vs.len() {
                let mut run: Vec<Any> = Vec::new();
                while k < vs.len() {
                    if let Val::Any(x) = &vs[k] {
                        run.push(x.to_any());
                        k += 1;
                    } else {
                        break;
                    }
                }
                if !run.is_empty() {
                    let n = run.len() as u32;
                    a.insert_range(txn, j, run);
                    j += n;
                } else {
                    a.insert(txn, j, vs[k].to_in());
                    j += 1;
                    k += 1;
                }
            }
        }
        Op::APush { v, .. } => {
            let Out::YArray(a) = tgt else { return Err("not array".into()) };
            a.push_back(txn, v.to_in());
        }
        Op::APushFront { v, .. } => {
            let Out::YArray(a) = tgt else { return Err("not array".into()) };
            a.push_front(txn, v.to_in());
        }
        Op::ADel { i, n, .. } => {
            let Out::YArray(a) = tgt else { return Err("not array".into()) };
            if *n == 1 {
                a.remove(txn, *i as u32);
            } else {
                a.remove_range(txn, *i as u32, *n as u32);
            }
        }
        Op::MSet { k, v, .. } => {
            let Out::YMap(m) = tgt else { return Err("not map".into()) };
            m.insert(txn, k.as_str(), v.to_in());
        }
        Op::MDel { k, .. } => {
            let Out::YMap(m) = tgt else { return Err("not map".into()) };
            m.remove(txn, k);
        }
        Op::MClear { .. } => {
            let Out::YMap(m) = tgt else { return Err("not map".into()) };
            m.clear(txn);
        }
        Op::MTryUpdate { k, v, .. } => {
            let Out::YMap(m) = tgt else { return Err("not map".into()) };
            m.try_update(txn, k.as_str(), v.to_any());
        }
        Op::MGetOrInit { k, kind: nk, .. } => {
            let Out::YMap(m) = tgt else { return Err("not map".into()) };
            match nk {
                NKind::Map => {
                    let _: MapRef = m.get_or_init(txn, k.as_str());
                }
                NKind::Array => {
                    let _: ArrayRef = m.get_or_init(txn, k.as_str());
                }
                NKind::Text => {
                    let _: TextRef = m.get_or_init(txn, k.as_str());
                }
            }
        }
        Op::XIns { i, v, .. } => {
            let frag: XmlFragmentRef = match &tgt {
                Out::YXmlFragment(f) => f.clone(),
                Out::YXmlElement(e) => {
                    let f: &XmlFragmentRef = e.as_ref();
                    f.clone()
                }
                _ => return Err("not xml container".into()),
            };
            match v {
                Val::XmlElem(tag) => {
                    frag.insert(txn, *i as u32, XmlElementPrelim::empty(tag.as_str()));
                }
                Val::XmlText(s) => {
                    frag.insert(txn, *i as u32, XmlTextPrelim::new(s.as_str()));
                }
                _ => return Err("bad xml value".into()),
            }
        }
        Op::XDel { i, n, .. } => {
            let frag: XmlFragmentRef = match &tgt {
                Out::YXmlFragment(f) => f.clone(),
                Out::YXmlElement(e) => {
                    let f: &XmlFragmentRef = e.as_ref();
                    f.clone()
                }
                _ => return Err("not xml container".into()),
            };
            if *n == 1 {
                frag.remove(txn, *i as u32);
            } else {
                frag.remove_range(txn, *i as u32, *n as u32);
            }
        }
        Op::XAttr { k, v, .. } => match &tgt {
            Out::YXmlElement(e) => {
                e.insert_attribute(txn, k.as_str(), v.as_str());
            }
            Out::YXmlText(e) => {
                e.insert_attribute(txn, k.as_str(), v.as_str());
            }
            _ => return Err("not xml node".into()),
        },
        Op::XAttrDel { k, .. } => match &tgt {
            Out::YXmlElement(e) => e.remove_attribute(txn, k),
            Out::YXmlText(e) => e.remove_attribute(txn, k),
            _ => return Err("not xml node".into()),
        },
        Op::Quote { src, lo, hi, key, .. } => {
            use std::ops::Bound;
            use yrs::Quotable;
            let b = |x: &Option<(u32, bool)>| match x {
                None => Bound::Unbounded,
                Some((i, true)) => Bound::Included(*i),
                Some((i, false)) => Bound::Excluded(*i),
            };
            let range = (b(lo), b(hi));
            if *src == 'a' {
                let p = roots.a.quote(&*txn, range).map_err(|e| format!("quote refused: {}", e))?;
                roots.m.insert(txn, key.as_str(), p);
            } else {
                let p = roots.t.quote(&*txn, range).map_err(|e| format!("quote refused: {}", e))?;
                roots.m.insert(txn, key.as_str(), p);
            }
        }
        Op::Link { k, .. } => {
            let p = roots.m.link(&*txn, k).ok_or("link refused: no such key")?;
            roots.a.push_back(txn, p);
        }
    }
    Ok(())
}

// ---------------------------------------------------------------------------------------------
// reference model execution

pub type Model = BTreeMap<char, Node>;

pub fn empty_model() -> Model {
    let mut m = BTreeMap::new();
    m.insert('t', Node::Text(Vec::new()));
    m.insert('a', Node::Array(Vec::new()));
    m.insert('m', Node::Map(BTreeMap::new()));
    m.insert('x', Node::XmlFragment(Vec::new()));
    m
}

pub fn model_resolve<'a>(m: &'a mut Model, t: &Tgt) -> Option<&'a mut Node> {
    let mut cur = m.get_mut(&t.root)?;
    for s in &t.path {
        cur = match (s, cur) {
            (Seg::I(i), Node::Array(v)) => v.get_mut(*i as usize)?,
            (Seg::I(i), Node::XmlFragment(v)) => v.get_mut(*i as usize)?,
            (Seg::I(i), Node::XmlElement { children, .. }) => children.get_mut(*i as usize)?,
            (Seg::K(k), Node::Map(v)) => v.get_mut(k)?,
            _ => return None,
        };
    }
    Some(cur)
}

pub fn node_resolve<'a>(m: &'a Model, t: &Tgt) -> Option<&'a Node> {
    let mut cur = m.get(&t.root)?;
    for s in &t.path {
        cur = match (s, cur) {
            (Seg::I(i), Node::Array(v)) => v.get(*i as usize)?,
            (Seg::I(i), Node::XmlFragment(v)) => v.get(*i as usize)?,
            (Seg::I(i), Node::XmlElement { children, .. }) => children.get(*i as usize)?,
            (Seg::K(k), Node::Map(v)) => v.get(k)?,
            _ => return None,
        };
    }
    Some(cur)
}

fn units_of(n: &mut Node) -> Option<&mut Vec<Unit>> {
    match n {
        Node::Text(u) => Some(u),
        Node::XmlText { units, .. } => Some(units),
        _ => None,
    }
}

fn apply_fmt(units: &mut [Unit], attrs: &AttrsV) {
    for u in units {
        for (k, v) in attrs {
            if *v == AnyV::Null {
                u.attrs.remove(k);
            } else {
                u.attrs.insert(k.clone(), v.clone());
            }
        }
    }
}

fn strip_nulls(a: &AttrsV) -> AttrsV {
    a.iter()
        .filter(|(_, v)| **v != AnyV::Null)
        .map(|(k, v)| (k.clone(), v.clone()))
        .collect()
}

fn children_of(n: &mut Node) -> Option<&mut Vec<Node>> {
    match n {
        Node::XmlFragment(c) => Some(c),
        Node::XmlElement { children, .. } => Some(children),
        _ => None,
    }
}

/// The sequential specification. Mirrors the documented API semantics only.
pub fn apply_model(m: &mut Model, op: &Op) -> Result<(), String> {
    let n = model_resolve(m, op.tgt()).ok_or("model: target does not resolve")?;
    match op {
        Op::TIns { i, s, .. } => {
            let u = units_of(n).ok_or("not text")?;
            let attrs = if *i > 0 { u[*i - 1].attrs.clone() } else { AttrsV::new() };
            let new = plain_units(s, &attrs);
            u.splice(*i..*i, new);
        }
        Op::TInsA { i, s, attrs, .. } => {
            let u = units_of(n).ok_or("not text")?;
            if !s.is_empty() {
                let new = plain_units(s, &strip_nulls(attrs));
                u.splice(*i..*i, new);
            }
        }
        Op::TEmbed { i, v, attrs, .. } => {
            let u = units_of(n).ok_or("not text")?;
            let a = match attrs {
                Some(a) => strip_nulls(a),
                None => {
                    if *i > 0 {
                        u[*i - 1].attrs.clone()
                    } else {
                        AttrsV::new()
                    }
                }
            };
            u.insert(
                *i,
                Unit {
                    c: UnitC::Embed(v.clone()),
                    attrs: a,
                },
            );
        }
        Op::TEmbedT { i, v, .. } => {
            let u = units_of(n).ok_or("not text")?;
            let a = if *i > 0 { u[*i - 1].attrs.clone() } else { AttrsV::new() };
            u.insert(*i, Unit { c: UnitC::Node(Box::new(v.to_node())), attrs: a });
        }
        Op::TFmt { i, n: len, attrs, .. } => {
            let u = units_of(n).ok_or("not text")?;
            apply_fmt(&mut u[*i..*i + *len], attrs);
        }
        Op::TDel { i, n: len, .. } => {
            let u = units_of(n).ok_or("not text")?;
            u.drain(*i..*i + *len);
        }
        Op::TPush { s, .. } => {
            let u = units_of(n).ok_or("not text")?;
            let attrs = u.last().map(|x| x.attrs.clone()).unwrap_or_default();
            u.extend(plain_units(s, &attrs));
        }
        Op::TDelta { d, .. } => {
            let u = units_of(n).ok_or("not text")?;
            let mut cur = 0usize;
            for o in d {
                match o {
                    DOp::Retain(k, a) => {
                        if let Some(a) = a {
                            apply_fmt(&mut u[cur..cur + k], a);
                        }
                        cur += k;
                    }
                    DOp::Ins(s, a) => {
                        let attrs = a.as_ref().map(strip_nulls).unwrap_or_default();
                        let new = plain_units(s, &attrs);
                        let l = new.len();
                        u.splice(cur..cur, new);
                        cur += l;
                    }
                    DOp::Del(k) => {
                        u.drain(cur..cur + k);
                    }
                }
            }
        }
        Op::AIns { i, v, .. } => {
            let Node::Array(a) = n else { return Err("not array".into()) };
            a.insert(*i, v.to_node());
        }
        Op::AInsRange { i, vs, .. } => {
            let Node::Array(a) = n else { return Err("not array".into()) };
            a.splice(*i..*i, vs.iter().map(|v| Node::Any(v.clone())));
        }
        Op::AInsMixed { i, vs, .. } => {
            let Node::Array(a) = n else { return Err("not array".into()) };
            a.splice(*i..*i, vs.iter().map(|v| v.to_node()));
        }
        Op::APush { v, .. } => {
            let Node::Array(a) = n else { return Err("not array".into()) };
            a.push(v.to_node());
        }
        Op::APushFront { v, .. } => {
            let Node::Array(a) = n else { return Err("not array".into()) };
            a.insert(0, v.to_node());
        }
        Op::ADel { i, n: len, .. } => {
            let Node::Array(a) = n else { return Err("not array".into()) };
            a.drain(*i..*i + *len);
        }
        Op::MSet { k, v, .. } => {
            let Node::Map(mm) = n else { return Err("not map".into()) };
            mm.insert(k.clone(), v.to_node());
        }
        Op::MDel { k, .. } => {
            let Node::Map(mm) = n else { return Err("not map".into()) };
            mm.remove(k);
        }
        Op::MClear { .. } => {
            let Node::Map(mm) = n else { return Err("not map".into()) };
            mm.clear();
        }
        Op::MTryUpdate { k, v, .. } => {
            let Node::Map(mm) = n else { return Err("not map".into()) };
            mm.insert(k.clone(), Node::Any(v.clone()));
        }
        Op::MGetOrInit { k, kind, .. } => {
            let Node::Map(mm) = n else { return Err("not map".into()) };
            let ok = match (mm.get(k), kind) {
                (Some(Node::Map(_)), NKind::Map) => true,
                (Some(Node::Array(_)), NKind::Array) => true,
                (Some(Node::Text(_)), NKind::Text) => true,
                _ => false,
            };
            if !ok {
                mm.insert(
                    k.clone(),
                    match kind {
                        NKind::Map => Node::Map(BTreeMap::new()),
                        NKind::Array => Node::Array(Vec::new()),
                        NKind::Text => Node::Text(Vec::new()),
                    },
                );
            }
        }
        Op::XIns { i, v, .. } => {
            let c = children_of(n).ok_or("not xml container")?;
            c.insert(*i, v.to_node());
        }
        Op::XDel { i, n: len, .. } => {
            let c = children_of(n).ok_or("not xml container")?;
            c.drain(*i..*i + *len);
        }
        Op::XAttr { k, v, .. } => match n {
            Node::XmlElement { attrs, .. } | Node::XmlText { attrs, .. } => {
                attrs.insert(k.clone(), Node::Any(AnyV::Str(v.clone())));
            }
            _ => return Err("not xml node".into()),
        },
        Op::XAttrDel { k, .. } => match n {
            Node::XmlElement { attrs, .. } | Node::XmlText { attrs, .. } => {
                attrs.remove(k);
            }
            _ => return Err("not xml node".into()),
        },
        Op::Quote { key, .. } => {
            if let Some(Node::Map(mm)) = m.get_mut(&'m') {
                mm.insert(key.clone(), Node::Weak(Vec::new()));
            }
        }
        Op::Link { .. } => {
            if let Some(Node::Array(a)) = m.get_mut(&'a') {
                a.push(Node::Weak(Vec::new()));
            }
        }
    }
    Ok(())
}

// ---------------------------------------------------------------------------------------------
// alphabets

#[derive(Clone, Copy, Debug, PartialEq, Eq, Hash, Serialize, Deserialize)]
pub enum Fam {
    /// plain text: single/2-unit inserts and removes
    Txt,
    /// rich text: Txt + attributes, format, embed, delta
    Rtx,
    /// unicode text: multi-byte / astral chunks
    Uni,
    Arr,
    Map,
    Xml,
    /// nested types inside array/map + edits inside them + container delete
    Nest,
}

impl Fam {
    pub fn parse(s: &str) -> Option<Fam> {
        Some(match s {
            "txt" => Fam::Txt,
            "rtx" => Fam::Rtx,
            "uni" => Fam::Uni,
            "arr" => Fam::Arr,
            "map" => Fam::Map,
            "xml" => Fam::Xml,
            "nest" => Fam::Nest,
            _ => return None,
        })
    }
    pub fn name(&self) -> &'static str {
        match self {
            Fam::Txt => "txt",
            Fam::Rtx => "rtx",
            Fam::Uni => "uni",
            Fam::Arr => "arr",
            Fam::Map => "map",
            Fam::Xml => "xml",
            Fam::Nest => "nest",
        }
    }
}

fn ins_positions(n: usize) -> Vec<usize> {
    let mut v = vec![0, n / 2, n];
    v.dedup();
    v
}
fn del_positions(n: usize) -> Vec<usize> {
    if n == 0 {
        return vec![];
    }
    let mut v = vec![0, n / 2, n - 1];
    v.sort();
    v.dedup();
    v
}

/// unique single-char tag of ordinal k
pub fn tag_char(k: usize) -> char {
    (b'a' + (k % 26) as u8) as char
}
pub fn tag_char2(k: usize) -> char {
    (b'A' + (k % 26) as u8) as char
}

fn bold() -> AttrsV {
    [("b".to_string(), AnyV::Bool(true))].into_iter().collect()
}
fn unbold() -> AttrsV {
    [("b".to_string(), AnyV::Null)].into_iter().collect()
}
fn ital() -> AttrsV {
    [("i".to_string(), AnyV::Bool(true))].into_iter().collect()
}

fn text_ops(out: &mut Vec<Op>, t: &Tgt, units: &[Unit], k: usize, fam: Fam, level: u8) {
    let n = units.len();
    let c1 = tag_char(k).to_string();
    let c2: String = [tag_char2(k), tag_char(k)].iter().collect();
    if fam == Fam::Rtx && level == 3 {
        // formatting-focused alphabet: a four-unit text, then every range x three values of ONE key
        // (set / another value / unset) - overlapping ranges of different non-null values - and appends
        if n == 0 {
            out.push(Op::TIns { t: t.clone(), i: 0, s: "wxyz".into() });
            return;
        }
        let vals: [AttrsV; 3] = [bold(), [("b".to_string(), AnyV::s("x"))].into_iter().collect(), unbold()];
        for i in 0..n {
            for len in 1..=(n - i) {
                if n > 4 && !(i == 0 || i + len == n || len <= 2) {
                    continue;
                }
                for v in &vals {
                    out.push(Op::TFmt { t: t.clone(), i, n: len, attrs: v.clone() });
                }
            }
        }
        out.push(Op::TIns { t: t.clone(), i: n, s: c1.clone() });
        out.push(Op::TDel { t: t.clone(), i: n / 2, n: 1 });
        return;
    }
    if fam == Fam::Rtx && level == 4 {
        // embed-focused alphabet: nested shared types (array / map / text) embedded as units of a text, JSON embeds,
        // characters, then EVERY deletion range up to three units (ranges that start at, end at, cover or only touch
        // an embedded type), one delta with a deletion, and formatting over the whole text
        if n == 0 {
            out.push(Op::TIns { t: t.clone(), i: 0, s: "wx".into() });
            return;
        }
        let kinds = [
            Val::Array(vec![AnyV::num(1.0)]),
            Val::Map(vec![("k".to_string(), AnyV::num(1.0))]),
            Val::Text("q".to_string()),
        ];
        for p in 0..=n {
            out.push(Op::TEmbedT { t: t.clone(), i: p, v: kinds[(k + p) % 3].clone() });
        }
        for p in ins_positions(n) {
            out.push(Op::TIns { t: t.clone(), i: p, s: c1.clone() });
        }
        out.push(Op::TEmbed { t: t.clone(), i: n / 2, v: AnyV::num(1000.0 + k as f64), attrs: None });
        for i in 0..n {
            for len in 1..=(n - i).min(3) {
                out.push(Op::TDel { t: t.clone(), i, n: len });
            }
        }
        if n >= 2 {
            out.push(Op::TDelta { t: t.clone(), d: vec![DOp::Retain(1, None), DOp::Del(n - 1)] });
        }
        out.push(Op::TFmt { t: t.clone(), i: 0, n, attrs: bold() });
        return;
    }
    match fam {
        Fam::Uni => {
            let chunks: &[&str] = if level == 0 {
                &["é", "😀"]
            } else {
                &["é", "€", "😀", "a😀"]
            };
            for p in 0..=n {
                if level == 0 && !ins_positions(n).contains(&p) {
                    continue;
                }
                for s in chunks {
                    out.push(Op::TIns {
                        t: t.clone(),
                        i: p,
                        s: s.to_string(),
                    });
                }
            }
            for p in 0..n {
                if level == 0 && !del_positions(n).contains(&p) {
                    continue;
                }
                out.push(Op::TDel {
                    t: t.clone(),
                    i: p,
                    n: 1,
                });
                if p + 2 <= n && level > 0 {
                    out.push(Op::TDel {
                        t: t.clone(),
                        i: p,
                        n: 2,
                    });
                }
            }
            return;
        }
        _ => {}
    }
    for p in ins_positions(n) {
        out.push(Op::TIns {
            t: t.clone(),
            i: p,
            s: c1.clone(),
        });
        if level >= 1 {
            out.push(Op::TIns {
                t: t.clone(),
                i: p,
                s: c2.clone(),
            });
        }
    }
    for p in del_positions(n) {
        out.push(Op::TDel {
            t: t.clone(),
            i: p,
            n: 1,
        });
    }
    if n >= 2 && level >= 1 {
        let mut ps = vec![0, (n - 2) / 2, n - 2];
        ps.dedup();
        for p in ps {
            out.push(Op::TDel {
                t: t.clone(),
                i: p,
                n: 2,
            });
        }
    }
    if level >= 2 {
        out.push(Op::TPush {
            t: t.clone(),
            s: c1.clone(),
        });
    }
    if fam == Fam::Rtx {
        for p in ins_positions(n) {
            out.push(Op::TInsA {
                t: t.clone(),
                i: p,
                s: c1.clone(),
                attrs: bold(),
            });
            if level >= 1 {
                out.push(Op::TEmbed {
                    t: t.clone(),
                    i: p,
                    v: AnyV::num(1000.0 + k as f64),
                    attrs: None,
                });
            }
            if level >= 2 {
                out.push(Op::TInsA {
                    t: t.clone(),
                    i: p,
                    s: c1.clone(),
                    attrs: AttrsV::new(),
                });
                out.push(Op::TEmbed {
                    t: t.clone(),
                    i: p,
                    v: AnyV::num(1000.0 + k as f64),
                    attrs: Some(ital()),
                });
            }
        }
        // format ranges: every (start,len) over positions {0, mid} x len {1, to end}
        if n >= 1 {
            let mut ranges: Vec<(usize, usize)> = vec![(0, 1), (0, n), (n / 2, n - n / 2), (n - 1, 1)];
            if n >= 3 {
                ranges.push((1, n - 2));
            }
            ranges.sort();
            ranges.dedup();
            for (i, len) in ranges {
                if len == 0 {
                    continue;
                }
                out.push(Op::TFmt {
                    t: t.clone(),
                    i,
                    n: len,
                    attrs: bold(),
                });
                out.push(Op::TFmt {
                    t: t.clone(),
                    i,
                    n: len,
                    attrs: unbold(),
                });
                if level >= 2 {
                    out.push(Op::TFmt {
                        t: t.clone(),
                        i,
                        n: len,
                        attrs: ital(),
                    });
                }
            }
        }
        if level >= 1 {
            // deltas: retain r, then insert / delete / format
            for r in ins_positions(n) {
                let mut d = Vec::new();
                if r > 0 {
                    d.push(DOp::Retain(r, None));
                }
                let mut d1 = d.clone();
                d1.push(DOp::Ins(c1.clone(), Some(bold())));
                out.push(Op::TDelta {
                    t: t.clone(),
                    d: d1,
                });
                let mut d1 = d.clone();
                d1.push(DOp::Ins(c1.clone(), None));
                out.push(Op::TDelta {
                    t: t.clone(),
                    d: d1,
                });
                if r < n {
                    let mut d2 = d.clone();
                    d2.push(DOp::Del(1));
                    d2.push(DOp::Ins(c1.clone(), None));
                    out.push(Op::TDelta {
                        t: t.clone(),
                        d: d2,
                    });
                    let mut d3 = d.clone();
                    d3.push(DOp::Retain(1, Some(bold())));
                    if r + 1 < n {
                        d3.push(DOp::Del(1));
                    }
                    out.push(Op::TDelta {
                        t: t.clone(),
                        d: d3,
                    });
                }
            }
        }
    }
}

fn prim(k: usize) -> AnyV {
    AnyV::Big(k as i64)
}

fn array_ops(out: &mut Vec<Op>, t: &Tgt, elems: &[Node], k: usize, level: u8, nested: bool) {
    let n = elems.len();
    for p in ins_positions(n) {
        out.push(Op::AIns {
            t: t.clone(),
            i: p,
            v: Val::Any(prim(k)),
        });
        if level >= 1 {
            out.push(Op::AInsRange {
                t: t.clone(),
                i: p,
                vs: vec![prim(k), prim(k + 100)],
            });
        }
        if nested {
            out.push(Op::AIns {
                t: t.clone(),
                i: p,
                v: Val::Array(vec![prim(k + 200)]),
            });
            if level >= 1 {
                out.push(Op::AIns {
                    t: t.clone(),
                    i: p,
                    v: Val::Map(vec![("k1".into(), prim(k + 200))]),
                });
                if p == 0 {
                    // a nested type with several children that cannot be squashed (three map entries)
                    out.push(Op::AIns {
                        t: t.clone(),
                        i: p,
                        v: Val::Map(vec![("k1".into(), prim(k + 300)), ("k2".into(), prim(k + 301)), ("k3".into(), prim(k + 302))]),
                    });
                }
                out.push(Op::AIns {
                    t: t.clone(),
                    i: p,
                    v: Val::Text(tag_char(k).to_string()),
                });
            }
        }
    }
    if level >= 2 {
        out.push(Op::APush {
            t: t.clone(),
            v: Val::Any(prim(k)),
        });
        out.push(Op::APushFront {
            t: t.clone(),
            v: Val::Any(prim(k)),
        });
    }
    for p in del_positions(n) {
        out.push(Op::ADel {
            t: t.clone(),
            i: p,
            n: 1,
        });
    }
    if n >= 2 && level >= 1 {
        let mut ps = vec![0, n - 2];
        ps.dedup();
        for p in ps {
            out.push(Op::ADel {
                t: t.clone(),
                i: p,
                n: 2,
            });
        }
    }
}

fn map_ops(out: &mut Vec<Op>, t: &Tgt, m: &BTreeMap<String, Node>, k: usize, level: u8, nested: bool) {
    let keys: &[&str] = if level == 0 { &["k1"] } else { &["k1", "k2"] };
    for key in keys {
        out.push(Op::MSet {
            t: t.clone(),
            k: key.to_string(),
            v: Val::Any(AnyV::Str(format!("v{}", k))),
        });
        if m.contains_key(*key) {
            out.push(Op::MDel {
                t: t.clone(),
                k: key.to_string(),
            });
        }
        if nested {
            out.push(Op::MSet {
                t: t.clone(),
                k: key.to_string(),
                v: Val::Map(vec![("k1".into(), prim(k))]),
            });
            if level >= 1 {
                out.push(Op::MSet {
                    t: t.clone(),
                    k: key.to_string(),
                    v: Val::Array(vec![prim(k)]),
                });
                out.push(Op::MGetOrInit {
                    t: t.clone(),
                    k: key.to_string(),
                    kind: NKind::Map,
                });
            }
            if level >= 2 {
                out.push(Op::MSet {
                    t: t.clone(),
                    k: key.to_string(),
                    v: Val::Text(tag_char(k).to_string()),
                });
                out.push(Op::MGetOrInit {
                    t: t.clone(),
                    k: key.to_string(),
                    kind: NKind::Array,
                });
            }
        }
        if level >= 2 {
            // try_update with the current value (no-op) and with a fresh one
            if let Some(Node::Any(cur)) = m.get(*key) {
                out.push(Op::MTryUpdate {
                    t: t.clone(),
                    k: key.to_string(),
                    v: cur.clone(),
                });
            }
            out.push(Op::MTryUpdate {
                t: t.clone(),
                k: key.to_string(),
                v: AnyV::Str(format!("u{}", k)),
            });
        }
    }
    if level >= 1 && !m.is_empty() {
        out.push(Op::MClear { t: t.clone() });
    }
}

fn xml_ops(out: &mut Vec<Op>, t: &Tgt, children: &[Node], k: usize, level: u8, depth: usize) {
    let n = children.len();
    for p in ins_positions(n) {
        out.push(Op::XIns {
            t: t.clone(),
            i: p,
            v: Val::XmlElem(format!("e{}", k)),
        });
        out.push(Op::XIns {
            t: t.clone(),
            i: p,
            v: Val::XmlText(tag_char(k).to_string()),
        });
    }
    for p in del_positions(n) {
        out.push(Op::XDel {
            t: t.clone(),
            i: p,
            n: 1,
        });
    }
    if n >= 2 && level >= 1 {
        out.push(Op::XDel {
            t: t.clone(),
            i: 0,
            n: 2,
        });
    }
    // descend into first and last child
    let mut idx: Vec<usize> = Vec::new();
    if n > 0 {
        idx.push(0);
        if n > 1 {
            idx.push(n - 1);
        }
    }
    for i in idx {
        let ct = t.child(Seg::I(i as u32));
        match &children[i] {
            Node::XmlElement {
                attrs, children: cc, ..
            } => {
                out.push(Op::XAttr {
                    t: ct.clone(),
                    k: "p".into(),
                    v: format!("v{}", k),
                });
                if attrs.contains_key("p") {
                    out.push(Op::XAttrDel {
                        t: ct.clone(),
                        k: "p".into(),
                    });
                }
                if depth < 1 {
                    xml_ops(out, &ct, cc, k, 0, depth + 1);
                }
            }
            Node::XmlText { units, attrs } => {
                let m = units.len();
                out.push(Op::TIns {
                    t: ct.clone(),
                    i: m,
                    s: tag_char(k).to_string(),
                });
                if m > 0 {
                    out.push(Op::TDel {
                        t: ct.clone(),
                        i: 0,
                        n: 1,
                    });
                    if level >= 1 {
                        out.push(Op::TFmt {
                            t: ct.clone(),
                            i: 0,
                            n: m,
                            attrs: bold(),
                        });
                    }
                }
                if level >= 1 {
                    out.push(Op::XAttr {
                        t: ct.clone(),
                        k: "p".into(),
                        v: format!("v{}", k),
                    });
                    if attrs.contains_key("p") {
                        out.push(Op::XAttrDel {
                            t: ct.clone(),
                            k: "p".into(),
                        });
                    }
                }
            }
            _ => {}
        }
    }
}

fn nest_ops(out: &mut Vec<Op>, st: &Model, k: usize, level: u8) {
    // containers: root array + root map with nested types; then edit inside each nested type
    if let Some(Node::Array(elems)) = st.get(&'a') {
        let t = Tgt::root('a');
        array_ops(out, &t, elems, k, 0, true);
        for (i, e) in elems.iter().enumerate() {
            if i > 0 && i + 1 < elems.len() {
                continue;
            }
            inner_ops(out, &t.child(Seg::I(i as u32)), e, k, level);
        }
    }
    if let Some(Node::Map(m)) = st.get(&'m') {
        let t = Tgt::root('m');
        map_ops(out, &t, m, k, 0, true);
        for (key, e) in m.iter() {
            inner_ops(out, &t.child(Seg::K(key.clone())), e, k, level);
        }
    }
}

fn inner_ops(out: &mut Vec<Op>, t: &Tgt, e: &Node, k: usize, level: u8) {
    match e {
        Node::Array(inner) => {
            let n = inner.len();
            out.push(Op::AIns {
                t: t.clone(),
                i: n,
                v: Val::Any(prim(k)),
            });
            if n > 0 {
                out.push(Op::ADel {
                    t: t.clone(),
                    i: 0,
                    n: 1,
                });
            }
            if level >= 1 && t.path.len() < 2 {
                out.push(Op::AIns {
                    t: t.clone(),
                    i: 0,
                    v: Val::Array(vec![prim(k + 300)]),
                });
            }
        }
        Node::Map(inner) => {
            out.push(Op::MSet {
                t: t.clone(),
                k: "k1".into(),
                v: Val::Any(prim(k)),
            });
            if inner.contains_key("k1") {
                out.push(Op::MDel {
                    t: t.clone(),
                    k: "k1".into(),
                });
            }
            if level >= 1 && t.path.len() < 2 {
                out.push(Op::MSet {
                    t: t.clone(),
                    k: "k2".into(),
                    v: Val::Map(vec![("k1".into(), prim(k + 300))]),
                });
            }
        }
        Node::Text(units) => {
            let n = units.len();
            out.push(Op::TIns {
                t: t.clone(),
                i: n,
                s: tag_char(k).to_string(),
            });
            if n > 0 {
                out.push(Op::TDel {
                    t: t.clone(),
                    i: 0,
                    n: 1,
                });
            }
        }
        _ => {}
    }
}

/// All operations of family `fam` enabled in visible state `st`; `k` is the ordinal of the
/// operation in the history (used to make inserted content unique).
pub fn gen_ops(fam: Fam, st: &Model, k: usize, level: u8) -> Vec<Op> {
    let mut out = Vec::new();
    match fam {
        Fam::Txt | Fam::Rtx | Fam::Uni => {
            if let Some(Node::Text(u)) = st.get(&'t') {
                text_ops(&mut out, &Tgt::root('t'), u, k, fam, level);
            }
        }
        Fam::Arr => {
            if let Some(Node::Array(e)) = st.get(&'a') {
                array_ops(&mut out, &Tgt::root('a'), e, k, level, false);
            }
        }
        Fam::Map => {
            if let Some(Node::Map(m)) = st.get(&'m') {
                map_ops(&mut out, &Tgt::root('m'), m, k, level, false);
            }
        }
        Fam::Xml => {
            if let Some(Node::XmlFragment(c)) = st.get(&'x') {
                xml_ops(&mut out, &Tgt::root('x'), c, k, level, 0);
            }
        }
        Fam::Nest => nest_ops(&mut out, st, k, level),
    }
    out
}

pub fn show_op(op: &Op) -> String {
    serde_json::to_string(op).unwrap_or_default()
}

#[allow(dead_code)]
pub fn get_string_of<T: ReadTxn>(txn: &T, t: &TextRef) -> String {
    t.get_string(txn)
}
#[allow(dead_code)]
fn _unused(_: &XmlElementRef) {}
