//! Visible dump: what a user can read through the public API, as a `Node`.
use crate::model::*;
use std::collections::BTreeMap;
use yrs::types::text::YChange;
use yrs::types::Attrs;
use yrs::{
    Array, ArrayRef, Map, MapRef, Out, ReadTxn, Text, TextRef, Xml, XmlElementRef, XmlFragment,
    XmlFragmentRef, XmlOut, XmlTextRef,
};

pub fn attrs_v(a: &Attrs) -> AttrsV {
    a.iter()
        .map(|(k, v)| (k.to_string(), AnyV::from_any(v)))
        .collect()
}

pub fn dump_units<T: ReadTxn, X: Text>(txn: &T, t: &X) -> Vec<Unit> {
    let mut units = Vec::new();
    for d in t.diff(txn, YChange::identity) {
        let attrs = d.attributes.as_ref().map(|a| attrs_v(a)).unwrap_or_default();
        match &d.insert {
            Out::Any(yrs::Any::String(s)) => {
                for c in s.chars() {
                    units.push(Unit {
                        c: UnitC::Ch(c),
                        attrs: attrs.clone(),
                    });
                }
            }
            Out::Any(a) => units.push(Unit {
                c: UnitC::Embed(AnyV::from_any(a)),
                attrs,
            }),
            other => units.push(Unit {
                c: UnitC::Node(Box::new(dump_out(txn, other))),
                attrs,
            }),
        }
    }
    units
}

pub fn dump_text<T: ReadTxn>(txn: &T, t: &TextRef) -> Node {
    Node::Text(dump_units(txn, t))
}

pub fn dump_array<T: ReadTxn>(txn: &T, a: &ArrayRef) -> Node {
    Node::Array(a.iter(txn).map(|o| dump_out(txn, &o)).collect())
}

pub fn dump_map<T: ReadTxn>(txn: &T, m: &MapRef) -> Node {
    let mut out = BTreeMap::new();
    for (k, v) in m.iter(txn) {
        out.insert(k.to_string(), dump_out(txn, &v));
    }
    Node::Map(out)
}

pub fn dump_xml_attrs<T: ReadTxn, X: Xml>(txn: &T, x: &X) -> BTreeMap<String, Node> {
    let mut out = BTreeMap::new();
    for (k, v) in x.attributes(txn) {
        out.insert(k.to_string(), dump_out(txn, &v));
    }
    out
}

pub fn dump_xml_out<T: ReadTxn>(txn: &T, x: &XmlOut) -> Node {
    match x {
        XmlOut::Element(e) => dump_xml_elem(txn, e),
        XmlOut::Fragment(f) => dump_xml_frag(txn, f),
        XmlOut::Text(t) => dump_xml_text(txn, t),
    }
}

pub fn dump_xml_elem<T: ReadTxn>(txn: &T, e: &XmlElementRef) -> Node {
    Node::XmlElement {
        tag: e.tag().to_string(),
        attrs: dump_xml_attrs(txn, e),
        children: e.children(txn).map(|c| dump_xml_out(txn, &c)).collect(),
    }
}

pub fn dump_xml_frag<T: ReadTxn>(txn: &T, f: &XmlFragmentRef) -> Node {
    Node::XmlFragment(f.children(txn).map(|c| dump_xml_out(txn, &c)).collect())
}

pub fn dump_xml_text<T: ReadTxn>(txn: &T, t: &XmlTextRef) -> Node {
    Node::XmlText {
        attrs: dump_xml_attrs(txn, t),
        units: dump_units(txn, t),
    }
}

pub fn dump_out<T: ReadTxn>(txn: &T, o: &Out) -> Node {
    match o {
        Out::Any(a) => Node::Any(AnyV::from_any(a)),
        Out::YText(t) => dump_text(txn, t),
        Out::YArray(a) => dump_array(txn, a),
        Out::YMap(m) => dump_map(txn, m),
        Out::YXmlElement(e) => dump_xml_elem(txn, e),
        Out::YXmlFragment(f) => dump_xml_frag(txn, f),
        Out::YXmlText(t) => dump_xml_text(txn, t),
        Out::YDoc(d) => Node::Doc(format!(
            "{}|gc={}|auto_load={}|coll={:?}|off={:?}",
            d.guid(),
            !d.skip_gc(),
            d.auto_load(),
            d.collection_id(),
            d.offset_kind()
        )),
        Out::YWeakLink(_) => Node::Weak(Vec::new()),
        Out::UndefinedRef(_) => Node::Undefined,
    }
}
