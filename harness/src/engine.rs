//! yx — supervisor / worker engine: sharded exhaustive enumeration in isolated worker
//! processes, counters, state sets, violations, evidence, known findings.
use serde_json::{json, Value};
use std::cell::RefCell;
use std::collections::{BTreeMap, BTreeSet, HashSet};
use std::hash::{Hash, Hasher};
use std::io::{Read, Seek, SeekFrom, Write};
use std::panic::{catch_unwind, AssertUnwindSafe};
use std::path::{Path, PathBuf};
use std::process::{Child, Command, Stdio};
use std::time::{Duration, Instant};

#[derive(Clone, Copy, PartialEq, Eq, Debug)]
pub enum Tier {
    Quick,
    Thorough,
}
impl Tier {
    pub fn parse(s: &str) -> Option<Tier> {
        match s {
            "quick" => Some(Tier::Quick),
            "thorough" => Some(Tier::Thorough),
            _ => None,
        }
    }
    pub fn name(&self) -> &'static str {
        match self {
            Tier::Quick => "quick",
            Tier::Thorough => "thorough",
        }
    }
    pub fn pick<T>(&self, q: T, t: T) -> T {
        match self {
            Tier::Quick => q,
            Tier::Thorough => t,
        }
    }
}

pub fn hash_of<T: Hash + ?Sized>(t: &T) -> u64 {
    #[allow(deprecated)]
    let mut h = std::hash::SipHasher::new_with_keys(0x7976, 0x1234);
    t.hash(&mut h);
    h.finish()
}

#[derive(Clone, Debug)]
pub struct Violation {
    pub oracle: String,
    pub class: String,
    pub msg: String,
    pub case: Value,
}

pub struct PropDef {
    pub id: &'static str,
    pub title: &'static str,
    /// number of shards per tier
    pub shards: fn(Tier) -> usize,
    /// enumerate this worker's shard
    pub run: fn(&mut Ctx),
    /// re-execute one case (straight-line, no explorer)
    pub replay: fn(&mut Ctx, &Value),
    /// how cases are enumerated / what is non-trivial (evidence `rule`)
    pub rule: &'static str,
    pub assumptions: &'static [&'static str],
}

/// start (ms since epoch) of the execution in flight, 0 if none: read by the watchdog thread
pub static EXEC_START_MS: std::sync::atomic::AtomicU64 = std::sync::atomic::AtomicU64::new(0);

fn now_ms() -> u64 {
    std::time::SystemTime::now()
        .duration_since(std::time::UNIX_EPOCH)
        .map(|d| d.as_millis() as u64)
        .unwrap_or(0)
}

thread_local! {
    static LAST_PANIC: RefCell<Option<(String, u32, String)>> = RefCell::new(None);
    static PANIC_FILE: RefCell<Option<PathBuf>> = RefCell::new(None);
}

pub fn install_panic_hook(panic_file: Option<PathBuf>) {
    PANIC_FILE.with(|p| *p.borrow_mut() = panic_file);
    std::panic::set_hook(Box::new(|info| {
        let (file, line) = info
            .location()
            .map(|l| (l.file().to_string(), l.line()))
            .unwrap_or_default();
        let msg = if let Some(s) = info.payload().downcast_ref::<&str>() {
            s.to_string()
        } else if let Some(s) = info.payload().downcast_ref::<String>() {
            s.clone()
        } else {
            "<non-string panic>".to_string()
        };
        PANIC_FILE.with(|p| {
            if let Some(p) = p.borrow().as_ref() {
                let _ = std::fs::write(p, format!("{}\n{}\n{}", file, line, msg));
            }
        });
        LAST_PANIC.with(|l| *l.borrow_mut() = Some((file, line, msg)));
    }));
}

/// Name of the function enclosing `line` of `file` (resilient against line shifts).
pub fn enclosing_fn(file: &str, line: u32) -> String {
    let path = if Path::new(file).is_absolute() {
        PathBuf::from(file)
    } else {
        PathBuf::from("/repo").join(file)
    };
    let Ok(src) = std::fs::read_to_string(&path) else {
        return "?".into();
    };
    let lines: Vec<&str> = src.lines().collect();
    let mut i = (line as usize).min(lines.len());
    while i > 0 {
        i -= 1;
        let l = lines[i].trim_start();
        if let Some(pos) = l.find("fn ") {
            let pre = &l[..pos];
            if pre.is_empty()
                || pre.ends_with(' ') && pre.chars().all(|c| c.is_alphanumeric() || " ()_\"".contains(c))
            {
                let rest = &l[pos + 3..];
                let name: String = rest
                    .chars()
                    .take_while(|c| c.is_alphanumeric() || *c == '_')
                    .collect();
                if !name.is_empty() {
                    return name;
                }
            }
        }
    }
    "?".into()
}

fn short_file(file: &str) -> String {
    file.trim_start_matches("/repo/").to_string()
}

/// class of a panic: site (file + enclosing fn) + message class (digits stripped)
pub fn panic_class(file: &str, line: u32, msg: &str) -> String {
    let m: String = msg
        .chars()
        .filter(|c| !c.is_ascii_digit())
        .take(60)
        .collect();
    format!("panic@{}:{}:{}", short_file(file), enclosing_fn(file, line), m.trim())
}

pub fn is_repo_file(file: &str) -> bool {
    file.starts_with("/repo/") || file.starts_with("yrs/") || file.starts_with("yffi/")
}

pub struct Ctx {
    pub prop: &'static str,
    pub tier: Tier,
    pub shard: usize,
    pub nshards: usize,
    pub seed: u64,
    pub replaying: bool,
    counters: BTreeMap<String, u64>,
    states: HashSet<u64>,
    outcomes: HashSet<u64>,
    viol: BTreeMap<(String, String), (u64, Vec<Violation>)>,
    samples: Vec<Value>,
    notes: BTreeSet<String>,
    journal: Option<std::fs::File>,
    poison: HashSet<String>,
    pub execs: u64,
    start: Instant,
    budget: Duration,
    pub capped: bool,
    machinery_errors: Vec<String>,
}

impl Ctx {
    pub fn new(prop: &'static str, tier: Tier, shard: usize, nshards: usize) -> Ctx {
        let seed = std::env::var("VERIF_SEED")
            .ok()
            .and_then(|s| s.parse().ok())
            .unwrap_or(0);
        // the supervisor hands every worker the same absolute deadline
        let now_ms = std::time::SystemTime::now()
            .duration_since(std::time::UNIX_EPOCH)
            .map(|d| d.as_millis() as u64)
            .unwrap_or(0);
        let budget_ms: u64 = std::env::var("YV_DEADLINE_MS")
            .ok()
            .and_then(|s| s.parse::<u64>().ok())
            .map(|d| d.saturating_sub(now_ms))
            .unwrap_or(3_600_000);
        Ctx {
            prop,
            tier,
            shard,
            nshards,
            seed,
            replaying: false,
            counters: BTreeMap::new(),
            states: HashSet::new(),
            outcomes: HashSet::new(),
            viol: BTreeMap::new(),
            samples: Vec::new(),
            notes: BTreeSet::new(),
            journal: None,
            poison: HashSet::new(),
            execs: 0,
            start: Instant::now(),
            budget: Duration::from_millis(budget_ms),
            capped: false,
            machinery_errors: Vec::new(),
        }
    }
    #[inline]
    pub fn count(&mut self, k: &str, n: u64) {
        if let Some(v) = self.counters.get_mut(k) {
            *v += n;
        } else {
            self.counters.insert(k.to_string(), n);
        }
    }
    /// true if index belongs to this worker's shard
    #[inline]
    pub fn mine(&self, idx: u64) -> bool {
        (idx % self.nshards as u64) as usize == self.shard
    }
    /// record a canonical state key; true if new (for this worker)
    #[inline]
    pub fn state(&mut self, h: u64) -> bool {
        self.states.insert(h)
    }
    pub fn seen_state(&self, h: u64) -> bool {
        self.states.contains(&h)
    }
    /// record a distinct non-trivial visible outcome / input
    #[inline]
    pub fn outcome(&mut self, h: u64) {
        self.outcomes.insert(h);
    }
    pub fn note(&mut self, s: &str) {
        self.notes.insert(s.to_string());
    }
    /// keep a handful of samples: the first one and a few picked by seed
    pub fn sample(&mut self, f: impl FnOnce() -> Value) {
        let n = self.samples.len();
        if n >= 4 {
            return;
        }
        let pick = n == 0 || hash_of(&(self.execs, self.seed)) % 997 == 0;
        if pick {
            self.samples.push(f());
        }
    }
    pub fn out_of_time(&mut self) -> bool {
        if self.capped {
            return true;
        }
        if (self.execs % 64 == 0 || self.budget.is_zero()) && self.start.elapsed() >= self.budget {
            self.capped = true;
        }
        self.capped
    }
    pub fn violation(&mut self, oracle: &str, class: &str, msg: String, case: Value) {
        let e = self
            .viol
            .entry((oracle.to_string(), class.to_string()))
            .or_insert((0, Vec::new()));
        e.0 += 1;
        if e.1.len() < 2 {
            e.1.push(Violation {
                oracle: oracle.to_string(),
                class: class.to_string(),
                msg,
                case,
            });
        }
    }
    pub fn machinery_error(&mut self, msg: String) {
        if self.machinery_errors.len() < 10 {
            self.machinery_errors.push(msg);
        }
    }
    pub fn violation_count(&self) -> u64 {
        self.viol.values().map(|v| v.0).sum()
    }

    /// Execute one case on the real code: journalled (so an abort is attributed to it),
    /// under catch_unwind (a panic in /repo code is a violation of the property under check).
    /// Returns None if the case panicked or is poisoned (known to kill the process).
    pub fn exec<T>(
        &mut self,
        case: &dyn Fn() -> Value,
        f: impl FnOnce(&mut Ctx) -> T,
    ) -> Option<T> {
        self.execs += 1;
        if self.journal.is_some() || !self.poison.is_empty() {
            let key = case().to_string();
            if self.poison.contains(&key) {
                self.count("poisoned_skipped", 1);
                return None;
            }
            if let Some(j) = self.journal.as_mut() {
                let bytes = key.as_bytes();
                let _ = j.seek(SeekFrom::Start(0));
                let _ = j.write_all(&(bytes.len() as u64).to_le_bytes());
                let _ = j.write_all(bytes);
            }
        }
        LAST_PANIC.with(|l| *l.borrow_mut() = None);
        EXEC_START_MS.store(now_ms(), std::sync::atomic::Ordering::Relaxed);
        let r = catch_unwind(AssertUnwindSafe(|| f(self)));
        EXEC_START_MS.store(0, std::sync::atomic::Ordering::Relaxed);
        match r {
            Ok(v) => Some(v),
            Err(_) => {
                let (file, line, msg) = LAST_PANIC
                    .with(|l| l.borrow_mut().take())
                    .unwrap_or(("?".into(), 0, "?".into()));
                if is_repo_file(&file) {
                    let class = panic_class(&file, line, &msg);
                    self.violation(
                        "no-panic",
                        &class,
                        format!("panic at {}:{}: {}", file, line, msg),
                        case(),
                    );
                } else {
                    self.machinery_error(format!(
                        "harness panic at {}:{}: {} on case {}",
                        file,
                        line,
                        msg,
                        case()
                    ));
                }
                None
            }
        }
    }

    fn write_result(&self, dir: &Path) {
        let viol: Vec<Value> = self
            .viol
            .iter()
            .map(|((o, c), (n, w))| {
                json!({"oracle": o, "class": c, "count": n,
                    "witnesses": w.iter().map(|v| json!({"msg": v.msg, "case": v.case})).collect::<Vec<_>>()})
            })
            .collect();
        let res = json!({
            "counters": self.counters,
            "violations": viol,
            "samples": self.samples,
            "notes": self.notes,
            "capped": self.capped,
            "execs": self.execs,
            "machinery_errors": self.machinery_errors,
        });
        write_hashes(&dir.join(format!("states.{}.bin", self.shard)), &self.states);
        write_hashes(&dir.join(format!("outcomes.{}.bin", self.shard)), &self.outcomes);
        std::fs::write(
            dir.join(format!("result.{}.json", self.shard)),
            serde_json::to_vec(&res).unwrap(),
        )
        .unwrap();
    }
}

fn write_hashes(p: &Path, set: &HashSet<u64>) {
    let mut buf = Vec::with_capacity(set.len() * 8);
    for h in set {
        buf.extend_from_slice(&h.to_le_bytes());
    }
    std::fs::write(p, buf).unwrap();
}
fn read_hashes(p: &Path, into: &mut HashSet<u64>) {
    if let Ok(buf) = std::fs::read(p) {
        for c in buf.chunks_exact(8) {
            into.insert(u64::from_le_bytes(c.try_into().unwrap()));
        }
    }
}

pub fn worker_main(prop: &PropDef, tier: Tier, shard: usize, nshards: usize, dir: &Path) -> i32 {
    install_panic_hook(Some(dir.join(format!("lastpanic.{}", shard))));
    let mut ctx = Ctx::new(prop.id, tier, shard, nshards);
    ctx.journal = Some(
        std::fs::OpenOptions::new()
            .create(true)
            .write(true)
            .truncate(true)
            .open(dir.join(format!("journal.{}", shard)))
            .unwrap(),
    );
    if let Ok(p) = std::fs::read_to_string(dir.join(format!("poison.{}", shard))) {
        for l in p.lines() {
            ctx.poison.insert(l.to_string());
        }
    }
    // watchdog: a single execution that takes longer than the limit is a verdict (timeout)
    let limit_ms: u64 = std::env::var("YV_EXEC_LIMIT_MS").ok().and_then(|s| s.parse().ok()).unwrap_or(if prop.id == "C10" { 8_000 } else { 30_000 });
    std::thread::spawn(move || loop {
        std::thread::sleep(Duration::from_millis(250));
        let s = EXEC_START_MS.load(std::sync::atomic::Ordering::Relaxed);
        if s != 0 && now_ms().saturating_sub(s) > limit_ms {
            eprintln!("WATCHDOG: execution exceeded {} ms", limit_ms);
            std::process::exit(97);
        }
    });
    (prop.run)(&mut ctx);
    ctx.write_result(dir);
    0
}

fn read_journal(p: &Path) -> Option<String> {
    let mut f = std::fs::File::open(p).ok()?;
    let mut len = [0u8; 8];
    f.read_exact(&mut len).ok()?;
    let n = u64::from_le_bytes(len) as usize;
    let mut buf = vec![0u8; n];
    f.read_exact(&mut buf).ok()?;
    String::from_utf8(buf).ok()
}

struct Known {
    property: String,
    oracle: String,
    class: String,
    desc: String,
}

fn load_known() -> Vec<Known> {
    let mut out = Vec::new();
    let Ok(s) = std::fs::read_to_string("/verif/known_findings.txt") else {
        return out;
    };
    for l in s.lines() {
        let l = l.trim();
        if !l.starts_with("known:") {
            continue;
        }
        // known: property=C11 oracle=<o> class=<c> :: description
        let (head, desc) = l.split_once(" :: ").unwrap_or((l, ""));
        let mut property = String::new();
        let mut oracle = String::new();
        let mut class = String::new();
        let body = head.trim_start_matches("known:").trim();
        // class may contain spaces: it is the last field
        if let Some((pre, c)) = body.split_once(" class=") {
            class = c.trim().to_string();
            for tok in pre.split_whitespace() {
                if let Some(v) = tok.strip_prefix("property=") {
                    property = v.to_string();
                } else if let Some(v) = tok.strip_prefix("oracle=") {
                    oracle = v.to_string();
                }
            }
        }
        out.push(Known {
            property,
            oracle,
            class,
            desc: desc.to_string(),
        });
    }
    out
}

fn jobs() -> usize {
    std::env::var("VERIF_JOBS")
        .ok()
        .and_then(|s| s.parse().ok())
        .unwrap_or_else(|| {
            std::thread::available_parallelism()
                .map(|n| n.get())
                .unwrap_or(8)
                .min(16)
        })
}

struct Running {
    shard: usize,
    child: Child,
    attempts: usize,
}

/// Supervisor: run all shards in worker processes, merge, judge, write evidence.
pub fn supervise(prop: &PropDef, tier: Tier) -> i32 {
    let t0 = Instant::now();
    let exe = std::env::current_exe().unwrap();
    let nshards = (prop.shards)(tier).max(1);
    let dir = PathBuf::from(format!(
        "/verif/target/tmp/{}-{}-{}",
        prop.id,
        tier.name(),
        std::process::id()
    ));
    let _ = std::fs::remove_dir_all(&dir);
    std::fs::create_dir_all(&dir).unwrap();
    let max_jobs = jobs();
    let budget_s: u64 = std::env::var("VERIF_BUDGET_S")
        .ok()
        .and_then(|s| s.parse().ok())
        .unwrap_or(match tier {
            Tier::Quick => 55,
            Tier::Thorough => 1200,
        });
    let deadline_ms = std::time::SystemTime::now()
        .duration_since(std::time::UNIX_EPOCH)
        .map(|d| d.as_millis() as u64)
        .unwrap_or(0)
        + budget_s * 1000;
    let mut queue: Vec<(usize, usize)> = (0..nshards).rev().map(|s| (s, 0)).collect();
    let mut running: Vec<Running> = Vec::new();
    let mut abort_viol: Vec<Violation> = Vec::new();
    let mut machinery: Vec<String> = Vec::new();
    let mut incomplete_shards = 0usize;
    let spawn = |shard: usize, attempts: usize| -> Running {
        let stderr = std::fs::File::create(dir.join(format!("stderr.{}", shard))).unwrap();
        let child = Command::new(&exe)
            .arg("worker")
            .arg(prop.id)
            .arg(tier.name())
            .arg(shard.to_string())
            .arg(nshards.to_string())
            .arg(&dir)
            .env("YV_DEADLINE_MS", deadline_ms.to_string())
            .stdin(Stdio::null())
            .stdout(Stdio::null())
            .stderr(Stdio::from(stderr))
            .spawn()
            .expect("spawn worker");
        Running {
            shard,
            child,
            attempts,
        }
    };
    loop {
        while running.len() < max_jobs {
            match queue.pop() {
                Some((s, a)) => running.push(spawn(s, a)),
                None => break,
            }
        }
        if running.is_empty() {
            break;
        }
        let mut i = 0;
        let mut progressed = false;
        while i < running.len() {
            match running[i].child.try_wait() {
                Ok(Some(status)) => {
                    progressed = true;
                    let r = running.swap_remove(i);
                    let ok = status.success()
                        && dir.join(format!("result.{}.json", r.shard)).exists();
                    if !ok {
                        // worker death: attribute to the journalled case
                        let j = read_journal(&dir.join(format!("journal.{}", r.shard)));
                        let stderr =
                            std::fs::read_to_string(dir.join(format!("stderr.{}", r.shard)))
                                .unwrap_or_default();
                        let lastpanic =
                            std::fs::read_to_string(dir.join(format!("lastpanic.{}", r.shard)))
                                .ok();
                        let _ = std::fs::remove_file(dir.join(format!("lastpanic.{}", r.shard)));
                        let class = death_class(&status, &stderr, lastpanic.as_deref());
                        match j {
                            Some(key) => {
                                let case: Value =
                                    serde_json::from_str(&key).unwrap_or(Value::String(key.clone()));
                                if class.starts_with("harness:") {
                                    machinery.push(format!(
                                        "worker for shard {} died in harness code: {} case {}",
                                        r.shard, class, key
                                    ));
                                } else {
                                    abort_viol.push(Violation {
                                        oracle: "no-abort".into(),
                                        class: class.clone(),
                                        msg: format!(
                                            "worker process died ({:?}) while executing this case; {}",
                                            status,
                                            stderr.lines().rev().take(3).collect::<Vec<_>>().join(" | ")
                                        ),
                                        case,
                                    });
                                }
                                let pf = dir.join(format!("poison.{}", r.shard));
                                let mut f = std::fs::OpenOptions::new()
                                    .create(true)
                                    .append(true)
                                    .open(pf)
                                    .unwrap();
                                let _ = writeln!(f, "{}", key);
                                if r.attempts < 12 {
                                    queue.push((r.shard, r.attempts + 1));
                                } else {
                                    incomplete_shards += 1;
                                }
                            }
                            None => {
                                machinery.push(format!(
                                    "worker for shard {} died before its first case: {:?} {}",
                                    r.shard,
                                    status,
                                    stderr.lines().rev().take(5).collect::<Vec<_>>().join(" | ")
                                ));
                            }
                        }
                    }
                }
                Ok(None) => i += 1,
                Err(e) => {
                    machinery.push(format!("wait failed: {}", e));
                    running.swap_remove(i);
                }
            }
        }
        if now_ms() > deadline_ms + 45_000 {
            // workers check the deadline between executions; whoever is still here is killed and
            // its shard counted as incomplete (never as a verdict)
            for r in running.iter_mut() {
                let _ = r.child.kill();
                let _ = r.child.wait();
                incomplete_shards += 1;
            }
            incomplete_shards += queue.len();
            running.clear();
            queue.clear();
            break;
        }
        if !progressed {
            std::thread::sleep(Duration::from_millis(15));
        }
    }

    // merge
    let mut counters: BTreeMap<String, u64> = BTreeMap::new();
    let mut states = HashSet::new();
    let mut outcomes = HashSet::new();
    let mut samples: Vec<Value> = Vec::new();
    let mut notes: BTreeSet<String> = BTreeSet::new();
    let mut capped = false;
    let mut execs = 0u64;
    let mut viol: BTreeMap<(String, String), (u64, Vec<Violation>)> = BTreeMap::new();
    for s in 0..nshards {
        let p = dir.join(format!("result.{}.json", s));
        let Ok(bytes) = std::fs::read(&p) else {
            continue;
        };
        let v: Value = serde_json::from_slice(&bytes).unwrap();
        for (k, n) in v["counters"].as_object().unwrap() {
            *counters.entry(k.clone()).or_insert(0) += n.as_u64().unwrap_or(0);
        }
        execs += v["execs"].as_u64().unwrap_or(0);
        capped |= v["capped"].as_bool().unwrap_or(false);
        for smp in v["samples"].as_array().unwrap() {
            if samples.len() < 5 {
                samples.push(smp.clone());
            }
        }
        for n in v["notes"].as_array().unwrap() {
            notes.insert(n.as_str().unwrap().to_string());
        }
        for m in v["machinery_errors"].as_array().unwrap() {
            machinery.push(m.as_str().unwrap().to_string());
        }
        for e in v["violations"].as_array().unwrap() {
            let key = (
                e["oracle"].as_str().unwrap().to_string(),
                e["class"].as_str().unwrap().to_string(),
            );
            let ent = viol.entry(key.clone()).or_insert((0, Vec::new()));
            ent.0 += e["count"].as_u64().unwrap();
            for w in e["witnesses"].as_array().unwrap() {
                if ent.1.len() < 2 {
                    ent.1.push(Violation {
                        oracle: key.0.clone(),
                        class: key.1.clone(),
                        msg: w["msg"].as_str().unwrap().to_string(),
                        case: w["case"].clone(),
                    });
                }
            }
        }
        read_hashes(&dir.join(format!("states.{}.bin", s)), &mut states);
        read_hashes(&dir.join(format!("outcomes.{}.bin", s)), &mut outcomes);
    }
    for v in abort_viol {
        let ent = viol
            .entry((v.oracle.clone(), v.class.clone()))
            .or_insert((0, Vec::new()));
        ent.0 += 1;
        if ent.1.len() < 2 {
            ent.1.push(v);
        }
    }
    let _ = std::fs::remove_dir_all(&dir);

    // judge
    let known = load_known();
    let mut n_viol = 0u64;
    let mut n_known = 0u64;
    let mut known_lines: Vec<String> = Vec::new();
    let mut viol_lines: Vec<String> = Vec::new();
    let mut per_class: Vec<Value> = Vec::new();
    std::fs::create_dir_all("/verif/replays").ok();
    for ((oracle, class), (count, wit)) in &viol {
        let k = known
            .iter()
            .find(|k| k.property == prop.id && &k.oracle == oracle && &k.class == class);
        per_class.push(json!({"oracle": oracle, "class": class, "count": count, "known": k.is_some()}));
        match k {
            Some(k) => {
                n_known += count;
                known_lines.push(format!(
                    "KNOWN-FINDING: property={} oracle={} class={} count={} {}",
                    prop.id, oracle, class, count, k.desc
                ));
            }
            None => {
                n_viol += count;
                for w in wit {
                    let body = json!({"property": prop.id, "oracle": oracle, "class": class,
                        "msg": w.msg, "case": w.case, "tier": tier.name()});
                    let h = hash_of(&body.to_string());
                    let path = format!("/verif/replays/{}-{:016x}.json", prop.id, h);
                    std::fs::write(&path, serde_json::to_vec_pretty(&body).unwrap()).ok();
                    viol_lines.push(format!(
                        "VIOLATION property={} replay={}   # oracle={} class={} count={} :: {}",
                        prop.id,
                        path,
                        oracle,
                        class,
                        count,
                        truncate(&w.msg, 300)
                    ));
                }
            }
        }
    }
    let exhaustive = !capped && incomplete_shards == 0 && machinery.is_empty();
    let wall = t0.elapsed().as_secs_f64();
    let transitions = counters.get("transitions").copied().unwrap_or(execs).max(1);
    let ev = json!({
        "property_id": prop.id,
        "tier": tier.name(),
        "seed": std::env::var("VERIF_SEED").ok().and_then(|s| s.parse::<i64>().ok()).unwrap_or(0),
        "level": "model_checking",
        "coverage": {
            "states": states.len().max(1),
            "transitions": transitions,
            "traces_validated_against_impl": execs,
            "evaluations": execs,
            "distinct_nontrivial": outcomes.len(),
            "rule": prop.rule,
            "samples": samples,
            "exhaustive": exhaustive,
            "counters": counters,
            "caps_hit": capped,
            "incomplete_shards": incomplete_shards,
            "shards": nshards,
            "violation_classes": per_class,
            "known_findings_matched": n_known,
            "notes": notes,
        },
        "assumptions": prop.assumptions,
        "wall_s": wall,
        "violations": n_viol,
    });
    std::fs::create_dir_all("/verif/evidence").ok();
    let evp = format!("/verif/evidence/{}.json", prop.id);
    if let Err(e) = std::fs::write(&evp, serde_json::to_vec_pretty(&ev).unwrap()) {
        machinery.push(format!("cannot write evidence: {}", e));
    }
    println!(
        "[{} {}] execs={} states={} transitions={} outcomes={} exhaustive={} wall={:.1}s",
        prop.id,
        tier.name(),
        execs,
        states.len(),
        transitions,
        outcomes.len(),
        exhaustive,
        wall
    );
    for (k, v) in &counters {
        println!("  {} = {}", k, v);
    }
    for l in &known_lines {
        println!("{}", l);
    }
    for l in &viol_lines {
        println!("{}", l);
    }
    if !machinery.is_empty() {
        for m in machinery.iter().take(10) {
            eprintln!("MACHINERY-ERROR: {}", truncate(m, 600));
        }
        if n_viol > 0 {
            return 1;
        }
        return 2;
    }
    if execs == 0 {
        eprintln!("MACHINERY-ERROR: nothing executed");
        return 2;
    }
    if n_viol > 0 {
        1
    } else {
        0
    }
}

fn truncate(s: &str, n: usize) -> String {
    if s.chars().count() <= n {
        s.to_string()
    } else {
        let t: String = s.chars().take(n).collect();
        format!("{}…", t)
    }
}

fn death_class(
    status: &std::process::ExitStatus,
    stderr: &str,
    lastpanic: Option<&str>,
) -> String {
    if stderr.contains("has overflowed its stack") {
        return "abort:stack-overflow".into();
    }
    if stderr.contains("memory allocation of") {
        return "abort:alloc-failure".into();
    }
    if stderr.contains("WATCHDOG") {
        return "abort:timeout".into();
    }
    if stderr.contains("ALLOC-CAP") {
        return "abort:alloc-cap".into();
    }
    if let Some(lp) = lastpanic {
        let mut it = lp.lines();
        let file = it.next().unwrap_or("?");
        let line: u32 = it.next().and_then(|s| s.parse().ok()).unwrap_or(0);
        let msg = it.next().unwrap_or("");
        if is_repo_file(file) {
            return format!("abort:{}", panic_class(file, line, msg));
        } else {
            return format!("harness:{}:{}:{}", file, line, msg);
        }
    }
    use std::os::unix::process::ExitStatusExt;
    if let Some(sig) = status.signal() {
        return format!("abort:signal-{}", sig);
    }
    format!("abort:exit-{:?}", status.code())
}

/// `yv replay <file>`: re-execute one recorded case in an isolated child, print the verdict.
pub fn replay_supervise(file: &str) -> i32 {
    let exe = std::env::current_exe().unwrap();
    let out = Command::new(&exe)
        .arg("replay-worker")
        .arg(file)
        .output()
        .expect("spawn replay worker");
    print!("{}", String::from_utf8_lossy(&out.stdout));
    eprint!("{}", String::from_utf8_lossy(&out.stderr));
    match out.status.code() {
        Some(c) if c == 0 || c == 1 => c,
        _ => {
            let v: Value = std::fs::read(file)
                .ok()
                .and_then(|b| serde_json::from_slice(&b).ok())
                .unwrap_or(Value::Null);
            println!(
                "replay: process died ({:?}) while executing the case",
                out.status
            );
            println!(
                "VIOLATION property={} replay={}",
                v["property"].as_str().unwrap_or("?"),
                file
            );
            1
        }
    }
}

pub fn replay_worker(props: &[PropDef], file: &str) -> i32 {
    install_panic_hook(None);
    let v: Value = match std::fs::read(file)
        .ok()
        .and_then(|b| serde_json::from_slice(&b).ok())
    {
        Some(v) => v,
        None => {
            eprintln!("cannot read replay file {}", file);
            return 2;
        }
    };
    let pid = v["property"].as_str().unwrap_or("");
    let Some(prop) = props.iter().find(|p| p.id == pid) else {
        eprintln!("unknown property {}", pid);
        return 2;
    };
    let tier = Tier::parse(v["tier"].as_str().unwrap_or("quick")).unwrap_or(Tier::Quick);
    let mut ctx = Ctx::new(prop.id, tier, 0, 1);
    ctx.replaying = true;
    ctx.budget = Duration::from_secs(3600);
    (prop.replay)(&mut ctx, &v["case"]);
    let mut n = 0;
    for ((o, c), (cnt, w)) in &ctx.viol {
        n += cnt;
        for x in w {
            println!("replay: oracle={} class={} :: {}", o, c, x.msg);
        }
    }
    for m in &ctx.machinery_errors {
        eprintln!("MACHINERY-ERROR: {}", m);
    }
    if n > 0 {
        println!("VIOLATION property={} replay={}", prop.id, file);
        1
    } else {
        println!("replay: no violation reproduced for {}", file);
        0
    }
}
