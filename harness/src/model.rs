//! Boring reference values: the visible content of shared types as plain data.
use serde::{Deserialize, Serialize};
use std::collections::BTreeMap;
use std::sync::Arc;
use yrs::{Any, OffsetKind};

#[derive(Clone, Debug, PartialEq, Eq, Hash, PartialOrd, Ord, Serialize, Deserialize)]
pub enum AnyV {
    Null,
    Undef,
    Bool(bool),
    /// f64 bits
    Num(u64),
    Big(i64),
    Str(String),
    Buf(Vec<u8>),
    Arr(Vec<AnyV>),
    Map(BTreeMap<String, AnyV>),
}

impl AnyV {
    pub fn num(f: f64) -> AnyV {
        AnyV::Num(f.to_bits())
    }
    pub fn s(s: &str) -> AnyV {
        AnyV::Str(s.to_string())
    }
    pub fn to_any(&self) -> Any {
        match self {
            AnyV::Null => Any::Null,
            AnyV::Undef => Any::Undefined,
            AnyV::Bool(b) => Any::Bool(*b),
            AnyV::Num(b) => Any::Number(f64::from_bits(*b)),
            AnyV::Big(i) => Any::BigInt(*i),
            AnyV::Str(s) => Any::String(Arc::from(s.as_str())),
            AnyV::Buf(b) => Any::Buffer(Arc::from(b.as_slice())),
            AnyV::Arr(a) => Any::Array(a.iter().map(|x| x.to_any()).collect()),
            AnyV::Map(m) => Any::Map(Arc::new(
                m.iter().map(|(k, v)| (k.clone(), v.to_any())).collect(),
            )),
        }
    }
    pub fn from_any(a: &Any) -> AnyV {
        match a {
            Any::Null => AnyV::Null,
            Any::Undefined => AnyV::Undef,
            Any::Bool(b) => AnyV::Bool(*b),
            Any::Number(f) => AnyV::Num(f.to_bits()),
            Any::BigInt(i) => AnyV::Big(*i),
            Any::String(s) => AnyV::Str(s.to_string()),
            Any::Buffer(b) => AnyV::Buf(b.to_vec()),
            Any::Array(a) => AnyV::Arr(a.iter().map(AnyV::from_any).collect()),
            Any::Map(m) => AnyV::Map(
                m.iter()
                    .map(|(k, v)| (k.clone(), AnyV::from_any(v)))
                    .collect(),
            ),
        }
    }
}

pub type AttrsV = BTreeMap<String, AnyV>;

#[derive(Clone, Debug, PartialEq, Eq, Hash, PartialOrd, Ord, Serialize, Deserialize)]
pub enum UnitC {
    Ch(char),
    Embed(AnyV),
    Node(Box<Node>),
}

#[derive(Clone, Debug, PartialEq, Eq, Hash, PartialOrd, Ord, Serialize, Deserialize)]
pub struct Unit {
    pub c: UnitC,
    pub attrs: AttrsV,
}

impl Unit {
    pub fn len(&self, kind: OffsetKind) -> u32 {
        match &self.c {
            UnitC::Ch(c) => match kind {
                OffsetKind::Bytes => c.len_utf8() as u32,
                OffsetKind::Utf16 => c.len_utf16() as u32,
            },
            _ => 1,
        }
    }
}

pub fn units_len(units: &[Unit], kind: OffsetKind) -> u32 {
    units.iter().map(|u| u.len(kind)).sum()
}

/// offset (in `kind` units) of the boundary before unit `i`
pub fn unit_offset(units: &[Unit], i: usize, kind: OffsetKind) -> u32 {
    units[..i].iter().map(|u| u.len(kind)).sum()
}

pub fn str_len(s: &str, kind: OffsetKind) -> u32 {
    match kind {
        OffsetKind::Bytes => s.len() as u32,
        OffsetKind::Utf16 => s.encode_utf16().count() as u32,
    }
}

#[derive(Clone, Debug, PartialEq, Eq, Hash, PartialOrd, Ord, Serialize, Deserialize)]
pub enum Node {
    Any(AnyV),
    Text(Vec<Unit>),
    Array(Vec<Node>),
    Map(BTreeMap<String, Node>),
    XmlFragment(Vec<Node>),
    XmlElement {
        tag: String,
        attrs: BTreeMap<String, Node>,
        children: Vec<Node>,
    },
    XmlText {
        attrs: BTreeMap<String, Node>,
        units: Vec<Unit>,
    },
    Doc(String),
    Weak(Vec<Node>),
    Undefined,
}

impl Node {
    pub fn text_string(units: &[Unit]) -> String {
        units
            .iter()
            .filter_map(|u| match &u.c {
                UnitC::Ch(c) => Some(*c),
                _ => None,
            })
            .collect()
    }
    /// short human-readable rendering
    pub fn show(&self) -> String {
        match self {
            Node::Any(a) => show_any(a),
            Node::Text(u) => format!("T{}", show_units(u)),
            Node::Array(v) => format!(
                "[{}]",
                v.iter().map(|n| n.show()).collect::<Vec<_>>().join(",")
            ),
            Node::Map(m) => format!(
                "{{{}}}",
                m.iter()
                    .map(|(k, v)| format!("{}:{}", k, v.show()))
                    .collect::<Vec<_>>()
                    .join(",")
            ),
            Node::XmlFragment(c) => format!(
                "<>{}</>",
                c.iter().map(|n| n.show()).collect::<Vec<_>>().join("")
            ),
            Node::XmlElement {
                tag,
                attrs,
                children,
            } => format!(
                "<{}{}>{}</{}>",
                tag,
                attrs
                    .iter()
                    .map(|(k, v)| format!(" {}={}", k, v.show()))
                    .collect::<String>(),
                children.iter().map(|n| n.show()).collect::<String>(),
                tag
            ),
            Node::XmlText { attrs, units } => format!(
                "X{}{}",
                attrs
                    .iter()
                    .map(|(k, v)| format!(" {}={}", k, v.show()))
                    .collect::<String>(),
                show_units(units)
            ),
            Node::Doc(g) => format!("doc({})", g),
            Node::Weak(v) => format!(
                "weak[{}]",
                v.iter().map(|n| n.show()).collect::<Vec<_>>().join(",")
            ),
            Node::Undefined => "undefined-ref".into(),
        }
    }
}

pub fn show_any(a: &AnyV) -> String {
    match a {
        AnyV::Null => "null".into(),
        AnyV::Undef => "undef".into(),
        AnyV::Bool(b) => b.to_string(),
        AnyV::Num(b) => format!("{}", f64::from_bits(*b)),
        AnyV::Big(i) => format!("{}n", i),
        AnyV::Str(s) => format!("{:?}", s),
        AnyV::Buf(b) => format!("buf{:?}", b),
        AnyV::Arr(a) => format!(
            "[{}]",
            a.iter().map(show_any).collect::<Vec<_>>().join(",")
        ),
        AnyV::Map(m) => format!(
            "{{{}}}",
            m.iter()
                .map(|(k, v)| format!("{}:{}", k, show_any(v)))
                .collect::<Vec<_>>()
                .join(",")
        ),
    }
}

pub fn show_units(units: &[Unit]) -> String {
    let mut s = String::from("\"");
    let mut cur: Option<&AttrsV> = None;
    for u in units {
        if cur != Some(&u.attrs) {
            if cur.map(|c| !c.is_empty()).unwrap_or(false) {
                s.push('}');
            }
            if !u.attrs.is_empty() {
                s.push('{');
                for (k, v) in &u.attrs {
                    s.push_str(&format!("{}={} ", k, show_any(v)));
                }
                s.push('|');
            }
            cur = Some(&u.attrs);
        }
        match &u.c {
            UnitC::Ch(c) => s.push(*c),
            UnitC::Embed(a) => s.push_str(&format!("⟨{}⟩", show_any(a))),
            UnitC::Node(n) => s.push_str(&format!("⟨{}⟩", n.show())),
        }
    }
    if cur.map(|c| !c.is_empty()).unwrap_or(false) {
        s.push('}');
    }
    s.push('"');
    s
}
