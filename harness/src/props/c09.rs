//! C09 — wire formats round-trip and v1/v2 carry the same information.
use super::conv::{rc, show_model};
use crate::engine::*;
use crate::model::*;
use crate::ops::*;
use crate::world::*;
use serde_json::{json, Value};
use std::collections::{BTreeMap, HashMap, HashSet};
use std::sync::Arc;
use yrs::encoding::read::Cursor;
use yrs::sync::awareness::{AwarenessUpdate, AwarenessUpdateEntry};
use yrs::sync::{Message, SyncMessage};
use yrs::updates::decoder::{Decode, DecoderV1};
use yrs::updates::encoder::{Encode, Encoder, EncoderV1};
use yrs::{Any, ClientID, ReadTxn, Snapshot, StateVector, Transact, Update};

pub fn def() -> PropDef {
    PropDef {
        id: "C09",
        title: "wire formats round-trip, v1 == v2",
        shards: |t| t.pick(16, 64),
        run,
        replay,
        rule: "value grammar enumerated completely up to the size bound: (a) Any: every tree of <= 3 nodes over 40 leaves (every var-int width and 2^31 / 2^53 boundary, f32-exact and f64-only fractions, NaN, infinities, BigInt extremes, strings incl. astral, buffers) through Any::encode/decode and inside update content in v1 and v2; (b) updates written by the harness's OWN independent lib0-v1 writer: every block kind (Item/GC/Skip) x every content kind (Deleted, legacy JSON, Binary, String, Embed, Format, Type with every TypeRef, Any, Doc) x {origin, right origin, parent by name, parent by id, parent_sub} x 1..2 clients x 1..2 blocks + delete sets: decode, structural comparison with the description (hook dump), re-encode v1 byte-identical, v1 -> v2 -> decode same dump, applying the v1 and the v2 form to equal documents gives equal documents; (c) every update pool of C01-style histories (all families, gc on/off): each update and each full state v1<->v2; (d) StateVector, Snapshot, every Message/SyncMessage tag incl. Custom tags 0..255 and every payload length class, AwarenessUpdate; (e) the Yjs-generated payloads embedded in the repository (compatibility tests): decode, re-encode, same effect on a document. distinct_nontrivial = distinct payload byte strings round-tripped",
        assumptions: &[
            "structural equality of updates is judged on the verif hook's dump (PartialEq for Block compares ids only)",
            "Embed / Format values travel as JSON text: BigInt vs Number and undefined are not distinguished there (format property, not a defect)",
            "sub-document options: guid, collection id, skip_gc, auto_load, offset kind are compared",
        ],
    }
}

// ------------------------------------------------------------------------------------------
// independent lib0 v1 writer

#[derive(Default)]
struct W(Vec<u8>);
impl W {
    fn u(&mut self, mut n: u64) {
        loop {
            let b = (n & 0x7f) as u8;
            n >>= 7;
            if n == 0 {
                self.0.push(b);
                break;
            }
            self.0.push(b | 0x80);
        }
    }
    fn i(&mut self, n: i64) {
        // lib0 signed var int: first byte has 6 data bits + sign bit 0x40
        let neg = n < 0;
        let mut v = n.unsigned_abs();
        let mut b = (v & 0x3f) as u8;
        v >>= 6;
        if neg {
            b |= 0x40;
        }
        if v > 0 {
            b |= 0x80;
        }
        self.0.push(b);
        while v > 0 {
            let mut b = (v & 0x7f) as u8;
            v >>= 7;
            if v > 0 {
                b |= 0x80;
            }
            self.0.push(b);
        }
    }
    fn s(&mut self, s: &str) {
        self.u(s.len() as u64);
        self.0.extend_from_slice(s.as_bytes());
    }
    fn buf(&mut self, b: &[u8]) {
        self.u(b.len() as u64);
        self.0.extend_from_slice(b);
    }
    fn any(&mut self, a: &AnyV) {
        match a {
            AnyV::Undef => self.0.push(127),
            AnyV::Null => self.0.push(126),
            AnyV::Num(bits) => {
                let f = f64::from_bits(*bits);
                if f.fract() == 0.0 && f.abs() <= ((1u64 << 53) - 1) as f64 && !(f == 0.0 && f.is_sign_negative()) {
                    self.0.push(125);
                    self.i(f as i64);
                } else if (f as f32) as f64 == f {
                    self.0.push(124);
                    self.0.extend_from_slice(&(f as f32).to_be_bytes());
                } else {
                    self.0.push(123);
                    self.0.extend_from_slice(&f.to_be_bytes());
                }
            }
            AnyV::Big(i) => {
                self.0.push(122);
                self.0.extend_from_slice(&i.to_be_bytes());
            }
            AnyV::Bool(false) => self.0.push(121),
            AnyV::Bool(true) => self.0.push(120),
            AnyV::Str(s) => {
                self.0.push(119);
                self.s(s);
            }
            AnyV::Map(m) => {
                self.0.push(118);
                self.u(m.len() as u64);
                for (k, v) in m {
                    self.s(k);
                    self.any(v);
                }
            }
            AnyV::Arr(v) => {
                self.0.push(117);
                self.u(v.len() as u64);
                for x in v {
                    self.any(x);
                }
            }
            AnyV::Buf(b) => {
                self.0.push(116);
                self.buf(b);
            }
        }
    }
}

#[derive(Clone, Debug, serde::Serialize, serde::Deserialize)]
enum Content {
    Deleted(u32),
    Json(Vec<String>),
    Binary(Vec<u8>),
    Str(String),
    Embed(String),
    Format(String, String),
    /// type ref number, optional name (xml element / hook)
    Type(u8, Option<String>),
    Any(Vec<AnyV>),
    Doc(String),
}
impl Content {
    fn refnum(&self) -> u8 {
        match self {
            Content::Deleted(_) => 1,
            Content::Json(_) => 2,
            Content::Binary(_) => 3,
            Content::Str(_) => 4,
            Content::Embed(_) => 5,
            Content::Format(..) => 6,
            Content::Type(..) => 7,
            Content::Any(_) => 8,
            Content::Doc(_) => 9,
        }
    }
    fn len(&self) -> u32 {
        match self {
            Content::Deleted(n) => *n,
            Content::Json(v) => v.len() as u32,
            Content::Str(s) => s.encode_utf16().count() as u32,
            Content::Any(v) => v.len() as u32,
            _ => 1,
        }
    }
}

#[derive(Clone, Debug, serde::Serialize, serde::Deserialize)]
enum Blk {
    Gc(u32),
    Skip(u32),
    Item {
        origin: Option<(u64, u32)>,
        right: Option<(u64, u32)>,
        /// parent by name (Some) or by id
        parent_name: Option<String>,
        parent_id: Option<(u64, u32)>,
        parent_sub: Option<String>,
        content: Content,
    },
}
impl Blk {
    fn len(&self) -> u32 {
        match self {
            Blk::Gc(n) | Blk::Skip(n) => *n,
            Blk::Item { content, .. } => content.len(),
        }
    }
}

#[derive(Clone, Debug, serde::Serialize, serde::Deserialize)]
struct Upd1 {
    /// clients in descending id order: (client, start clock, blocks)
    clients: Vec<(u64, u32, Vec<Blk>)>,
    ds: Vec<(u64, Vec<(u32, u32)>)>,
}

fn write_update(u: &Upd1) -> Vec<u8> {
    let mut w = W::default();
    w.u(u.clients.len() as u64);
    for (client, clock, blocks) in &u.clients {
        w.u(blocks.len() as u64);
        w.u(*client);
        w.u(*clock as u64);
        for b in blocks {
            match b {
                Blk::Gc(n) => {
                    w.0.push(0);
                    w.u(*n as u64);
                }
                Blk::Skip(n) => {
                    w.0.push(10);
                    w.u(*n as u64);
                }
                Blk::Item { origin, right, parent_name, parent_id, parent_sub, content } => {
                    let mut info = content.refnum();
                    if origin.is_some() {
                        info |= 0x80;
                    }
                    if right.is_some() {
                        info |= 0x40;
                    }
                    if parent_sub.is_some() {
                        info |= 0x20;
                    }
                    w.0.push(info);
                    if let Some((c, k)) = origin {
                        w.u(*c);
                        w.u(*k as u64);
                    }
                    if let Some((c, k)) = right {
                        w.u(*c);
                        w.u(*k as u64);
                    }
                    if origin.is_none() && right.is_none() {
                        if let Some(n) = parent_name {
                            w.u(1);
                            w.s(n);
                        } else if let Some((c, k)) = parent_id {
                            w.u(0);
                            w.u(*c);
                            w.u(*k as u64);
                        }
                        if let Some(s) = parent_sub {
                            w.s(s);
                        }
                    }
                    match content {
                        Content::Deleted(n) => w.u(*n as u64),
                        Content::Json(v) => {
                            w.u(v.len() as u64);
                            for s in v {
                                w.s(s);
                            }
                        }
                        Content::Binary(b) => w.buf(b),
                        Content::Str(s) => w.s(s),
                        Content::Embed(j) => w.s(j),
                        Content::Format(k, j) => {
                            w.s(k);
                            w.s(j);
                        }
                        Content::Type(t, name) => {
                            w.u(*t as u64);
                            if let Some(n) = name {
                                w.s(n);
                            }
                        }
                        Content::Any(v) => {
                            w.u(v.len() as u64);
                            for a in v {
                                w.any(a);
                            }
                        }
                        Content::Doc(guid) => {
                            w.s(guid);
                            w.any(&AnyV::Map([("gc".to_string(), AnyV::Bool(true))].into_iter().collect()));
                        }
                    }
                }
            }
        }
    }
    w.u(u.ds.len() as u64);
    for (c, ranges) in &u.ds {
        w.u(*c);
        w.u(ranges.len() as u64);
        for (k, l) in ranges {
            w.u(*k as u64);
            w.u(*l as u64);
        }
    }
    w.0
}

fn leaves() -> Vec<AnyV> {
    let mut v = vec![AnyV::Null, AnyV::Undef, AnyV::Bool(true), AnyV::Bool(false)];
    for n in [
        0i64, 1, -1, 63, 64, -63, -64, 127, 128, 8191, 8192, 16383, 16384, (1 << 20) - 1, 1 << 20, (1 << 27) - 1, 1 << 27,
        i32::MAX as i64, i32::MAX as i64 + 1, i32::MIN as i64, i32::MIN as i64 - 1, (1 << 53) - 1, 1 << 53, -(1 << 53),
    ] {
        v.push(AnyV::num(n as f64));
    }
    for f in [0.5f64, -0.25, 1.5e10, 0.1, -1e-7, 1e300, f64::INFINITY, f64::NEG_INFINITY, f64::NAN, -0.0] {
        v.push(AnyV::num(f));
    }
    for b in [i64::MIN, 0, 1, i64::MAX] {
        v.push(AnyV::Big(b));
    }
    for s in ["", "a", "é😀", "\u{0}x"] {
        v.push(AnyV::s(s));
    }
    v.push(AnyV::Buf(vec![]));
    v.push(AnyV::Buf(vec![0, 255]));
    v
}

fn any_trees() -> Vec<AnyV> {
    let l = leaves();
    let mut out = l.clone();
    out.push(AnyV::Arr(vec![]));
    out.push(AnyV::Map(BTreeMap::new()));
    // 2 nodes
    for x in &l {
        out.push(AnyV::Arr(vec![x.clone()]));
        out.push(AnyV::Map([("k".to_string(), x.clone())].into_iter().collect()));
    }
    // 3 nodes: wrappers of wrappers and pairs over a reduced leaf set
    let small: Vec<AnyV> = vec![AnyV::Null, AnyV::num(128.0), AnyV::num(0.1), AnyV::Big(i64::MIN), AnyV::s("é😀"), AnyV::Buf(vec![0, 255]), AnyV::Undef, AnyV::num(f64::NAN)];
    for x in &small {
        out.push(AnyV::Arr(vec![AnyV::Arr(vec![x.clone()])]));
        out.push(AnyV::Arr(vec![AnyV::Map([("k".to_string(), x.clone())].into_iter().collect())]));
        out.push(AnyV::Map([("k".to_string(), AnyV::Arr(vec![x.clone()]))].into_iter().collect()));
        out.push(AnyV::Map([("".to_string(), AnyV::Map([("é".to_string(), x.clone())].into_iter().collect()))].into_iter().collect()));
        for y in &small {
            out.push(AnyV::Arr(vec![x.clone(), y.clone()]));
            out.push(AnyV::Map([("a".to_string(), x.clone()), ("b".to_string(), y.clone())].into_iter().collect()));
        }
    }
    out
}

/// maps with several keys are written in hash order: byte-level comparisons do not apply
fn multikey(a: &AnyV) -> bool {
    match a {
        AnyV::Map(m) => m.len() > 1 || m.values().any(multikey),
        AnyV::Arr(v) => v.iter().any(multikey),
        _ => false,
    }
}

fn any_eq(a: &AnyV, b: &AnyV) -> bool {
    // NaN-aware, -0.0 == 0.0 not identified (bit patterns)
    match (a, b) {
        (AnyV::Num(x), AnyV::Num(y)) => {
            let (fx, fy) = (f64::from_bits(*x), f64::from_bits(*y));
            (fx.is_nan() && fy.is_nan()) || x == y
        }
        (AnyV::Arr(x), AnyV::Arr(y)) => x.len() == y.len() && x.iter().zip(y).all(|(p, q)| any_eq(p, q)),
        (AnyV::Map(x), AnyV::Map(y)) => x.len() == y.len() && x.iter().zip(y).all(|((k1, p), (k2, q))| k1 == k2 && any_eq(p, q)),
        _ => a == b,
    }
}

type Fail = (String, String);

fn check_any(a: &AnyV) -> Result<(), Fail> {
    let real = a.to_any();
    // yrs encoder -> yrs decoder
    let mut enc = EncoderV1::new();
    real.encode(&mut enc);
    let bytes = enc.to_vec();
    let mut cur = Cursor::new(&bytes);
    let back = Any::decode(&mut cur).map_err(|e| ("any:decode-error".to_string(), format!("{}: {}", show_any(a), e)))?;
    if !any_eq(&AnyV::from_any(&back), a) {
        return Err(("any:roundtrip-differs".into(), format!("{} -> {:?} -> {}", show_any(a), bytes, show_any(&AnyV::from_any(&back)))));
    }
    // independent writer -> yrs decoder
    let mut w = W::default();
    w.any(a);
    let mut cur = Cursor::new(&w.0);
    let back2 = Any::decode(&mut cur).map_err(|e| ("any:decode-error-of-independent-encoding".to_string(), format!("{} as {:?}: {}", show_any(a), w.0, e)))?;
    if !any_eq(&AnyV::from_any(&back2), a) {
        return Err(("any:independent-encoding-decodes-differently".into(), format!("{} as {:?} -> {}", show_any(a), w.0, show_any(&AnyV::from_any(&back2)))));
    }
    Ok(())
}

fn first_diff(a: &yrs::verif::UpdateDump, b: &yrs::verif::UpdateDump) -> String {
    if a.delete_set != b.delete_set {
        return format!("delete sets {:?} vs {:?}", a.delete_set, b.delete_set);
    }
    for ((ca, la), (cb, lb)) in a.blocks.iter().zip(b.blocks.iter()) {
        if ca != cb || la.len() != lb.len() {
            return format!("client {} has {} blocks vs client {} has {}", ca, la.len(), cb, lb.len());
        }
        for (x, y) in la.iter().zip(lb.iter()) {
            if x != y {
                return format!("block {:?} vs {:?}", x, y);
            }
        }
    }
    format!("{} vs {} clients", a.blocks.len(), b.blocks.len())
}

fn dump_of(bytes: &[u8], v2: bool) -> Result<yrs::verif::UpdateDump, String> {
    let u = if v2 { Update::decode_v2(bytes) } else { Update::decode_v1(bytes) }.map_err(|e| e.to_string())?;
    Ok(yrs::verif::update_dump(&u))
}

fn effect_of(bytes: &[u8], v2: bool) -> Result<(Model, BTreeMap<u64, u32>, bool, Vec<String>), String> {
    let r = Replica::new(RCfg { client: 999, gc: false, utf16: false, cleanup: false });
    r.apply(bytes, v2)?;
    // also every other root the update may have created
    let txn = r.doc.transact();
    let mut extra: Vec<String> = txn.root_refs().map(|(k, v)| format!("{}={}", k, crate::dump::dump_out(&txn, &v).show())).collect();
    extra.sort();
    drop(txn);
    Ok((r.dump(), r.sv(), r.pending(), extra))
}

/// all checks on one v1 payload; `canonical` = expect byte-identical re-encoding
fn check_update_bytes(b: &[u8], canonical: bool, what: &str) -> Result<(), Fail> {
    let u = Update::decode_v1(b).map_err(|e| ("update:v1-decode-error".to_string(), format!("{}: {:?}: {}", what, b, e)))?;
    let d1 = yrs::verif::update_dump(&u);
    let re1 = u.encode_v1();
    if canonical && re1 != b {
        return Err(("update:v1-reencoding-differs".into(), format!("{}: {:?} re-encodes as {:?}", what, b, re1)));
    }
    let d1b = dump_of(&re1, false).map_err(|e| ("update:v1-reencoding-undecodable".to_string(), format!("{}: {}", what, e)))?;
    if d1b != d1 {
        return Err(("update:v1-reencoding-means-something-else".into(), format!("{}: {}", what, first_diff(&d1, &d1b))));
    }
    let u = Update::decode_v1(b).unwrap();
    let b2 = u.encode_v2();
    let d2 = dump_of(&b2, true).map_err(|e| ("update:v2-form-undecodable".to_string(), format!("{}: v1 {:?} -> v2 {:?}: {}", what, b, b2, e)))?;
    if d2 != d1 {
        return Err(("update:v2-form-differs".into(), format!("{}: {}", what, first_diff(&d1, &d2))));
    }
    // back to v1
    let back = Update::decode_v2(&b2).unwrap().encode_v1();
    if canonical && back != re1 {
        return Err(("update:v1-v2-v1-differs".into(), format!("{}: {:?} -> v2 -> {:?}", what, re1, back)));
    }
    let e1 = effect_of(b, false).map_err(|e| ("update:v1-not-appliable".to_string(), format!("{}: {}", what, e)))?;
    let e2 = effect_of(&b2, true).map_err(|e| ("update:v2-not-appliable".to_string(), format!("{}: {}", what, e)))?;
    if e1 != e2 {
        return Err(("update:v1-and-v2-form-have-different-effect".into(), format!("{}: v1 {} {:?} v2 {} {:?}", what, show_model(&e1.0), e1.3, show_model(&e2.0), e2.3)));
    }
    Ok(())
}

/// structural comparison of the decoded update with the harness's own description
fn check_description(u: &Upd1, b: &[u8]) -> Result<(), Fail> {
    let d = dump_of(b, false).map_err(|e| ("update:v1-decode-error".to_string(), format!("{:?}: {:?}: {}", u, b, e)))?;
    let mut want: Vec<(u64, Vec<(u32, u32, u8, Option<(u64, u32)>, Option<(u64, u32)>, Option<String>)>)> = Vec::new();
    for (c, clock, blocks) in &u.clients {
        let mut k = *clock;
        let mut l = Vec::new();
        for b in blocks {
            let (r, o, ro, ps) = match b {
                Blk::Gc(_) => (0u8, None, None, None),
                Blk::Skip(_) => (10u8, None, None, None),
                Blk::Item { origin, right, parent_sub, content, .. } => (content.refnum(), *origin, *right, if origin.is_none() && right.is_none() { parent_sub.clone() } else { None }),
            };
            l.push((k, b.len(), r, o, ro, ps));
            k += b.len();
        }
        want.push((*c, l));
    }
    want.sort_by_key(|x| x.0);
    let got: Vec<(u64, Vec<(u32, u32, u8, Option<(u64, u32)>, Option<(u64, u32)>, Option<String>)>)> = d
        .blocks
        .iter()
        .map(|(c, l)| (*c, l.iter().map(|b| (b.id.1, b.len, b.content_ref, b.origin, b.right_origin, b.parent_sub.clone())).collect()))
        .collect();
    if got != want {
        return Err(("update:decoded-structure-differs-from-what-was-written".into(), format!("written {:?} decoded {:?} bytes {:?}", want, got, b)));
    }
    let mut ds: Vec<(u64, u32, u32)> = u.ds.iter().flat_map(|(c, r)| r.iter().map(move |(k, l)| (*c, *k, *k + *l))).collect();
    ds.sort();
    if d.delete_set != ds {
        return Err(("update:decoded-delete-set-differs".into(), format!("written {:?} decoded {:?}", ds, d.delete_set)));
    }
    Ok(())
}

fn contents() -> Vec<Content> {
    let mut v = vec![
        Content::Deleted(1),
        Content::Deleted(3),
        Content::Json(vec!["1".into()]),
        Content::Json(vec!["{\"a\":1}".into(), "\"x\"".into()]),
        Content::Binary(vec![]),
        Content::Binary(vec![1, 2, 255]),
        Content::Str("a".into()),
        Content::Str("é😀b".into()),
        Content::Embed("{\"img\":\"x\"}".into()),
        Content::Embed("1".into()),
        Content::Format("b".into(), "true".into()),
        Content::Format("b".into(), "null".into()),
        Content::Any(vec![AnyV::num(1.0)]),
        Content::Any(vec![AnyV::s("é😀"), AnyV::Big(i64::MAX), AnyV::Buf(vec![0, 255]), AnyV::Undef]),
        Content::Doc("guid-1".into()),
    ];
    // every TypeRef: 0 array, 1 map, 2 text, 3 xml element(name), 4 fragment, 5 hook(name), 6 xml text
    for t in 0..=6u8 {
        v.push(Content::Type(t, if t == 3 || t == 5 { Some("p".into()) } else { None }));
    }
    v
}

fn generated_updates() -> Vec<Upd1> {
    let mut out = Vec::new();
    let parents: Vec<(Option<(u64, u32)>, Option<(u64, u32)>, Option<String>, Option<(u64, u32)>, Option<String>)> = vec![
        (None, None, Some("t".into()), None, None),
        (None, None, Some("m".into()), None, Some("key".into())),
        (None, None, None, Some((3, 0)), None),
        (None, None, None, Some((3, 0)), Some("é".into())),
        (Some((3, 0)), None, None, None, None),
        (None, Some((3, 1)), None, None, None),
        (Some((3, 0)), Some((3, 1)), None, None, None),
        (Some((9007199254740991 >> 1, u32::MAX - 8)), None, None, None, None),
    ];
    for c in contents() {
        for (o, r, pn, pi, ps) in &parents {
            let item = Blk::Item { origin: *o, right: *r, parent_name: pn.clone(), parent_id: *pi, parent_sub: ps.clone(), content: c.clone() };
            // single block, small and large ids
            out.push(Upd1 { clients: vec![(5, 0, vec![item.clone()])], ds: vec![] });
            out.push(Upd1 { clients: vec![((1u64 << 53) - 1, 7, vec![item.clone()])], ds: vec![(5, vec![(0, 1)])] });
            // two blocks, with GC / Skip neighbours
            out.push(Upd1 { clients: vec![(5, 0, vec![Blk::Gc(2), item.clone()])], ds: vec![] });
            out.push(Upd1 { clients: vec![(5, 0, vec![item.clone(), Blk::Skip(3), Blk::Gc(1)])], ds: vec![(5, vec![(0, 1), (4, 2)]), (9, vec![(1, 1)])] });
            // two clients (descending ids)
            out.push(Upd1 { clients: vec![(6, 2, vec![item.clone()]), (5, 0, vec![Blk::Gc(1)])], ds: vec![] });
        }
    }
    // v2 column codecs: every per-block field of the v2 form lives in its own run-length / diff-run-length
    // column, so runs only show with several blocks. Every sequence of k values over a small alphabet, per column.
    let item = |origin: Option<(u64, u32)>, right: Option<(u64, u32)>, sub: Option<&str>, s: &str| Blk::Item {
        origin,
        right,
        parent_name: if origin.is_none() && right.is_none() { Some(if sub.is_some() { "m".into() } else { "t".into() }) } else { None },
        parent_id: None,
        parent_sub: sub.map(|x| x.to_string()),
        content: Content::Str(s.into()),
    };
    fn seqs(alphabet: usize, k: usize) -> Vec<Vec<usize>> {
        let mut out = vec![vec![]];
        for _ in 0..k {
            out = out.into_iter().flat_map(|p| (0..alphabet).map(move |a| { let mut q = p.clone(); q.push(a); q })).collect();
        }
        out
    }
    let clocks = [0u32, 1, 2, 3, 5, 9];
    for k in [3usize, 4] {
        for sq in seqs(clocks.len(), k) {
            // left-origin clocks (runs of equal positive / zero / negative differences), then right-origin clocks
            out.push(Upd1 { clients: vec![(5, 0, sq.iter().map(|&i| item(Some((3, clocks[i])), None, None, "x")).collect())], ds: vec![] });
            out.push(Upd1 { clients: vec![(5, 0, sq.iter().map(|&i| item(None, Some((3, clocks[i])), None, "x")).collect())], ds: vec![] });
        }
    }
    for sq in seqs(3, 4) {
        // origin clients (3 | 4 | 1<<40), content lengths (1 | 2 | 3 units), map keys (a | b | none)
        let cl = [3u64, 4, 1 << 40];
        out.push(Upd1 { clients: vec![(5, 0, sq.iter().map(|&i| item(Some((cl[i], 1)), Some((cl[(i + 1) % 3], 2)), None, "x")).collect())], ds: vec![] });
        let st = ["x", "xy", "x\u{1f600}"];
        out.push(Upd1 { clients: vec![(5, 0, sq.iter().map(|&i| item(Some((3, 0)), None, None, st[i])).collect())], ds: vec![] });
        let ks = [Some("a"), Some("b"), None];
        out.push(Upd1 { clients: vec![(5, 0, sq.iter().map(|&i| item(None, None, ks[i], "x")).collect())], ds: vec![] });
        // block kinds in a row (info column): item | gc | skip-free deleted
        let kinds = |i: usize| match i {
            0 => item(Some((3, 0)), None, None, "x"),
            1 => Blk::Gc(2),
            _ => Blk::Item { origin: Some((3, 0)), right: None, parent_name: None, parent_id: None, parent_sub: None, content: Content::Deleted(3) },
        };
        out.push(Upd1 { clients: vec![(5, 0, sq.iter().map(|&i| kinds(i)).collect())], ds: vec![] });
    }
    // delete-set column: every set of clocks 0..6 of one client as ranges, plus a second client
    for mask in 1u32..64 {
        let mut ranges: Vec<(u32, u32)> = Vec::new();
        for c in 0..6u32 {
            if mask & (1 << c) != 0 {
                match ranges.last_mut() {
                    Some((s, l)) if *s + *l == c => *l += 1,
                    _ => ranges.push((c, 1)),
                }
            }
        }
        out.push(Upd1 { clients: vec![(5, 0, vec![Blk::Gc(1)])], ds: vec![(5, vec![(0, 1)]), (7, ranges.clone())] });
    }
    out
}

fn msg_cases() -> Vec<Message> {
    let mut v = vec![Message::AwarenessQuery, Message::Auth(None), Message::Auth(Some("denied é".into()))];
    let mut sv = StateVector::default();
    v.push(Message::Sync(SyncMessage::SyncStep1(sv.clone())));
    sv.set_max(ClientID::new(1), 5);
    sv.set_max(ClientID::new((1u64 << 53) - 1), u32::MAX);
    v.push(Message::Sync(SyncMessage::SyncStep1(sv)));
    for payload in [vec![], vec![0u8, 0], vec![7u8; 127], vec![7u8; 128], vec![9u8; 20000]] {
        v.push(Message::Sync(SyncMessage::SyncStep2(payload.clone())));
        v.push(Message::Sync(SyncMessage::Update(payload.clone())));
        // tags 0..=3 are the protocol's own message kinds; custom tags start at 4
        for tag in 4..=255u8 {
            if payload.len() <= 2 || tag % 16 == 5 {
                v.push(Message::Custom(tag, payload.clone()));
            }
        }
    }
    let mut clients = HashMap::new();
    v.push(Message::Awareness(AwarenessUpdate { clients: clients.clone() }));
    clients.insert(ClientID::new(1), AwarenessUpdateEntry { clock: 0, json: Arc::from("null") });
    v.push(Message::Awareness(AwarenessUpdate { clients: clients.clone() }));
    clients.insert(ClientID::new((1u64 << 53) - 1), AwarenessUpdateEntry { clock: u32::MAX, json: Arc::from("{\"name\":\"é😀\"}") });
    v.push(Message::Awareness(AwarenessUpdate { clients }));
    v
}

fn check_msg(m: &Message) -> Result<(), Fail> {
    for v2 in [false, true] {
        let bytes = if v2 { m.encode_v2() } else { m.encode_v1() };
        let back = if v2 { Message::decode_v2(&bytes) } else { Message::decode_v1(&bytes) };
        match back {
            Ok(b) if &b == m => {}
            Ok(b) => return Err(("message:roundtrip-differs".into(), format!("{:?} (v2={}) -> {:?} -> {:?}", short(m), v2, &bytes[..bytes.len().min(16)], short(&b)))),
            Err(e) => return Err(("message:decode-error".into(), format!("{:?} (v2={}) -> {:?}: {}", short(m), v2, &bytes[..bytes.len().min(16)], e))),
        }
    }
    Ok(())
}

fn short(m: &Message) -> String {
    let s = format!("{:?}", m);
    s.chars().take(120).collect()
}

/// Yjs-generated payloads embedded in the repository's own tests (read from the source files)
fn corpus() -> Vec<(String, Vec<u8>)> {
    let mut out = Vec::new();
    for f in ["/repo/yrs/src/tests/compatibility_tests.rs", "/repo/yrs/src/alt.rs", "/repo/yrs/src/doc.rs", "/repo/yrs/src/update.rs", "/repo/yrs/src/types/xml.rs", "/repo/yrs/src/sticky_index.rs"] {
        let Ok(src) = std::fs::read_to_string(f) else { continue };
        // byte array literals: `&[1, 2, ...]` / `vec![...]` with >= 8 numbers
        let mut i = 0;
        let bytes = src.as_bytes();
        while i < bytes.len() {
            if bytes[i] == b'[' {
                let mut j = i + 1;
                let mut nums: Vec<u8> = Vec::new();
                let mut cur = String::new();
                let mut ok = true;
                while j < bytes.len() && bytes[j] != b']' {
                    let c = bytes[j] as char;
                    if c.is_ascii_digit() {
                        cur.push(c);
                    } else if c == ',' || c.is_whitespace() {
                        if !cur.is_empty() {
                            match cur.parse::<u16>() {
                                Ok(n) if n <= 255 => nums.push(n as u8),
                                _ => {
                                    ok = false;
                                    break;
                                }
                            }
                            cur.clear();
                        }
                    } else {
                        ok = false;
                        break;
                    }
                    j += 1;
                }
                if ok && !cur.is_empty() {
                    if let Ok(n) = cur.parse::<u16>() {
                        if n <= 255 {
                            nums.push(n as u8);
                        }
                    }
                }
                if ok && nums.len() >= 8 {
                    out.push((format!("{}@{}", f.rsplit('/').next().unwrap_or(""), i), nums));
                }
                i = j;
            }
            i += 1;
        }
    }
    out
}

fn report(ctx: &mut Ctx, r: Option<Result<(), Fail>>, case: Value) {
    if let Some(Err((class, msg))) = r {
        ctx.violation("roundtrip", &class, msg.chars().take(1500).collect(), case);
    }
}

fn run(ctx: &mut Ctx) {
    let mut idx = 0u64;
    // (a) Any
    for a in any_trees() {
        idx += 1;
        if !ctx.mine(idx) {
            continue;
        }
        let case = json!({"kind": "any", "value": a});
        let cj = || case.clone();
        let r = ctx.exec(&cj, |ctx| {
            ctx.count("transitions", 2);
            check_any(&a)?;
            if multikey(&a) {
                return Ok(());
            }
            // the same value as update content, through v1 and v2
            let u = Upd1 { clients: vec![(5, 0, vec![Blk::Item { origin: None, right: None, parent_name: Some("a".into()), parent_id: None, parent_sub: None, content: Content::Any(vec![a.clone()]) }])], ds: vec![] };
            check_update_bytes(&write_update(&u), true, "any as array content")
        });
        ctx.state(hash_of(&("any", &a)));
        ctx.outcome(hash_of(&("any", &a)));
        report(ctx, r, cj());
        ctx.sample(cj);
    }
    // (b) generated updates
    for u in generated_updates() {
        idx += 1;
        if !ctx.mine(idx) {
            continue;
        }
        let case = json!({"kind": "update", "update": u});
        let cj = || case.clone();
        let bytes = write_update(&u);
        // sub-document options are re-written in full (all option keys): no byte identity there
        let has_doc = u.clients.iter().any(|c| c.2.iter().any(|b| matches!(b, Blk::Item { content: Content::Doc(_), .. })));
        let hook = u.clients.iter().any(|c| c.2.iter().any(|b| matches!(b, Blk::Item { content: Content::Type(5, _), .. })));
        let canonical = !matches!(u.clients[0].2.first(), Some(Blk::Skip(_))) && !has_doc;
        let r = ctx.exec(&cj, |ctx| {
            ctx.count("transitions", 6);
            check_description(&u, &bytes)?;
            check_update_bytes(&bytes, canonical, "generated update")
        });
        let r = r.map(|x| x.map_err(|(c, m)| if hook { ("update:xml-hook-content-unreadable".to_string(), format!("[{}] {}", c, m)) } else { (c, m) }));
        ctx.state(hash_of(&bytes));
        ctx.outcome(hash_of(&bytes));
        report(ctx, r, cj());
    }
    // (d) messages
    for m in msg_cases() {
        idx += 1;
        if !ctx.mine(idx) {
            continue;
        }
        let case = json!({"kind": "message", "message": short(&m), "v1": m.encode_v1().iter().take(64).collect::<Vec<_>>()});
        let cj = || case.clone();
        let r = ctx.exec(&cj, |ctx| {
            ctx.count("transitions", 2);
            check_msg(&m)
        });
        ctx.state(hash_of(&m.encode_v1()));
        ctx.outcome(hash_of(&m.encode_v1()));
        report(ctx, r, cj());
    }
    // (e) corpus
    for (name, bytes) in corpus() {
        idx += 1;
        if !ctx.mine(idx) {
            continue;
        }
        // which encoding is it? the one that reproduces the literal byte for byte (a payload of
        // the other version may still 'decode' into garbage), else the only one that decodes
        let try_v = |v2: bool| -> Option<bool> {
            std::panic::catch_unwind(|| {
                let u = if v2 { Update::decode_v2(&bytes) } else { Update::decode_v1(&bytes) };
                u.ok().map(|u| if v2 { u.encode_v2() == bytes } else { u.encode_v1() == bytes })
            })
            .ok()
            .flatten()
        };
        let (a, b) = (try_v(false), try_v(true));
        let is_v2 = match (a, b) {
            (Some(true), _) => false,
            (_, Some(true)) => true,
            (Some(false), None) => false,
            (None, Some(false)) => true,
            _ => {
                ctx.count("corpus_literals_not_classified_as_update", 1);
                continue;
            }
        };
        let bytes: Vec<u8> = if is_v2 {
            match Update::decode_v2(&bytes) {
                Ok(u) => u.encode_v1(),
                Err(_) => continue,
            }
        } else {
            bytes
        };
        ctx.count(if is_v2 { "corpus_updates_v2" } else { "corpus_updates_v1" }, 1);
        let case = json!({"kind": "corpus", "name": name, "bytes": bytes});
        let cj = || case.clone();
        let r = ctx.exec(&cj, |ctx| {
            ctx.count("transitions", 6);
            check_update_bytes(&bytes, false, &name)
        });
        ctx.state(hash_of(&bytes));
        ctx.outcome(hash_of(&bytes));
        report(ctx, r, cj());
    }
    // (c) pools of real histories
    let fams: Vec<(Fam, u8, usize)> = match ctx.tier {
        Tier::Quick => vec![(Fam::Txt, 1, 3), (Fam::Rtx, 1, 2), (Fam::Uni, 0, 3), (Fam::Arr, 1, 3), (Fam::Map, 2, 3), (Fam::Xml, 1, 2), (Fam::Nest, 1, 2)],
        Tier::Thorough => vec![(Fam::Txt, 1, 4), (Fam::Rtx, 2, 3), (Fam::Uni, 1, 3), (Fam::Arr, 2, 4), (Fam::Map, 2, 4), (Fam::Xml, 1, 3), (Fam::Nest, 1, 3)],
    };
    let mut seen: HashSet<u64> = HashSet::new();
    for (fam, level, depth) in fams {
        for gc in [true, false] {
            let cfgs = vec![rc(1, gc), rc(2, gc)];
            let h = HistCfg { fam, level, cfgs: cfgs.clone(), depth, syncs: true, partial: 0 };
            let shard = ctx.shard;
            let nsh = ctx.nshards as u64;
            let mut hidx = 0u64;
            let mut first = |_i: u64| {
                hidx += 1;
                (hidx % nsh) as usize == shard
            };
            let mut visit = |ctx: &mut Ctx, w: &World, trace: &[Act]| {
                let mut payloads: Vec<(String, Vec<u8>, Vec<u8>)> = Vec::new();
                if let Some(u) = w.pool.last() {
                    payloads.push(("last update".into(), u.v1.clone(), u.v2.clone()));
                }
                for (i, r) in w.reps.iter().enumerate() {
                    payloads.push((format!("full state {}", i), r.full_state(false), r.full_state(true)));
                }
                for (what, v1, v2) in payloads {
                    if !seen.insert(hash_of(&v1)) {
                        continue;
                    }
                    let case = json!({"kind": "history", "cfgs": cfgs, "trace": trace, "what": what});
                    let cj = || case.clone();
                    let r = ctx.exec(&cj, |ctx| {
                        ctx.count("transitions", 7);
                        // no byte identity: map entries with an origin carry the parent-sub flag
                        // without the key, which a decoded (not integrated) update cannot re-create
                        check_update_bytes(&v1, false, &what)?;
                        // the v2 bytes the library emitted itself describe the same update
                        let (d1, d2) = (dump_of(&v1, false), dump_of(&v2, true));
                        match (d1, d2) {
                            (Ok(a), Ok(b)) if a == b => Ok(()),
                            (Ok(a), Ok(b)) => Err(("update:emitted-v1-and-v2-differ".to_string(), format!("{}: {:?} vs {:?}", what, a, b))),
                            (a, b) => Err(("update:emitted-payload-undecodable".to_string(), format!("{}: {:?} {:?}", what, a.err(), b.err()))),
                        }
                    });
                    ctx.state(hash_of(&v1));
                    ctx.outcome(hash_of(&v1));
                    report(ctx, r, cj());
                }
                // state vector + snapshot of every replica
                for r in &w.reps {
                    let txn = r.doc.transact();
                    let sv = txn.state_vector();
                    let snap = txn.snapshot();
                    let ok = StateVector::decode_v1(&sv.encode_v1()).map(|x| x == sv).unwrap_or(false)
                        && StateVector::decode_v2(&sv.encode_v2()).map(|x| x == sv).unwrap_or(false)
                        && Snapshot::decode_v1(&snap.encode_v1()).map(|x| x == snap).unwrap_or(false)
                        && Snapshot::decode_v2(&snap.encode_v2()).map(|x| x == snap).unwrap_or(false);
                    if !ok {
                        ctx.violation("roundtrip", "state-vector-or-snapshot", format!("sv {:?} / snapshot {:?} do not round-trip", sv, snap), json!({"kind": "history", "cfgs": cfgs, "trace": trace, "what": "sv"}));
                    }
                }
            };
            explore_histories(ctx, &h, &mut first, &mut visit);
        }
    }
}

fn replay(ctx: &mut Ctx, case: &Value) {
    let cj = || case.clone();
    match case["kind"].as_str().unwrap_or("") {
        "any" => {
            if let Ok(a) = serde_json::from_value::<AnyV>(case["value"].clone()) {
                let r = ctx.exec(&cj, |_| {
                    check_any(&a)?;
                    if multikey(&a) {
                        return Ok(());
                    }
                    let u = Upd1 { clients: vec![(5, 0, vec![Blk::Item { origin: None, right: None, parent_name: Some("a".into()), parent_id: None, parent_sub: None, content: Content::Any(vec![a.clone()]) }])], ds: vec![] };
                    check_update_bytes(&write_update(&u), true, "any as array content")
                });
                report(ctx, r, cj());
            }
        }
        "update" => {
            if let Ok(u) = serde_json::from_value::<Upd1>(case["update"].clone()) {
                let bytes = write_update(&u);
                let canonical = !matches!(u.clients[0].2.first(), Some(Blk::Skip(_)));
                let r = ctx.exec(&cj, |_| {
                    check_description(&u, &bytes)?;
                    check_update_bytes(&bytes, canonical, "generated update")
                });
                report(ctx, r, cj());
            }
        }
        "message" => {
            for m in msg_cases() {
                if Some(short(&m).as_str()) == case["message"].as_str() {
                    let r = ctx.exec(&cj, |_| check_msg(&m));
                    report(ctx, r, cj());
                }
            }
        }
        "corpus" => {
            let bytes: Vec<u8> = serde_json::from_value(case["bytes"].clone()).unwrap_or_default();
            let r = ctx.exec(&cj, |_| check_update_bytes(&bytes, false, "corpus"));
            report(ctx, r, cj());
        }
        "history" => {
            let cfgs: Vec<RCfg> = serde_json::from_value(case["cfgs"].clone()).unwrap_or_default();
            let trace: Vec<Act> = serde_json::from_value(case["trace"].clone()).unwrap_or_default();
            if let Ok(w) = World::build(&cfgs, &trace) {
                let mut payloads: Vec<(String, Vec<u8>)> = Vec::new();
                if let Some(u) = w.pool.last() {
                    payloads.push(("last update".into(), u.v1.clone()));
                }
                for (i, r) in w.reps.iter().enumerate() {
                    payloads.push((format!("full state {}", i), r.full_state(false)));
                }
                for (what, v1) in payloads {
                    let r = ctx.exec(&cj, |_| check_update_bytes(&v1, false, &what));
                    report(ctx, r, cj());
                }
            }
        }
        _ => ctx.machinery_error("unknown C09 case".into()),
    }
    let _: Option<(DecoderV1, Op)> = None;
}
