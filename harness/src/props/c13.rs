//! C13 — a snapshot restores the document exactly as it was.
use crate::engine::*;
use crate::model::*;
use crate::ops::*;
use crate::world::*;
use super::conv::{rc, show_model};
use serde_json::{json, Value};
use yrs::updates::decoder::Decode;
use yrs::updates::encoder::{Encode, Encoder, EncoderV1, EncoderV2};
use yrs::{ReadTxn, Snapshot, Transact, Update};

pub fn def() -> PropDef {
    PropDef {
        id: "C13",
        title: "snapshots restore exactly",
        shards: |t| t.pick(32, 128),
        run,
        replay,
        rule: "all histories (families txt/rtx/uni/arr/map/nest/xml, R in {1,2} gc-disabled real replicas, causal syncs, L local ops), state-matched; for every visited history and every replica: a snapshot + visible dump are taken after EVERY prefix i, and at the end state j >= i encode_state_from_snapshot(s_i) (v1 and v2) is applied to a fresh document whose dump must equal the dump recorded at i; Snapshot encode/decode round-trip (v1, v2); a gc-enabled twin must answer Err(Gc). distinct_nontrivial = distinct (snapshot content, later content) pairs with non-empty snapshot content and a later edit",
        assumptions: &["snapshots are taken on replicas without pending updates (causal histories)"],
    }
}

fn nogc(client: u64, utf16: bool) -> RCfg {
    RCfg {
        client,
        gc: false,
        utf16,
        cleanup: true,
    }
}

fn bounds(tier: Tier) -> Vec<(Fam, u8, Vec<RCfg>, usize)> {
    match tier {
        Tier::Quick => vec![
            (Fam::Txt, 1, vec![nogc(1, false)], 4),
            (Fam::Txt, 0, vec![nogc(1, false), nogc(2, false)], 3),
            (Fam::Rtx, 0, vec![nogc(1, false)], 3),
            (Fam::Rtx, 4, vec![nogc(1, false)], 4),
            (Fam::Uni, 0, vec![nogc(1, true)], 3),
            (Fam::Arr, 1, vec![nogc(1, false)], 3),
            (Fam::Map, 1, vec![nogc(1, false)], 3),
            (Fam::Nest, 0, vec![nogc(1, false)], 3),
            (Fam::Xml, 0, vec![nogc(1, false)], 3),
        ],
        Tier::Thorough => vec![
            (Fam::Txt, 1, vec![nogc(1, false)], 5),
            (Fam::Txt, 1, vec![nogc(1, false), nogc(2, false)], 4),
            (Fam::Txt, 0, vec![nogc(2, false), nogc(1, false)], 4),
            (Fam::Rtx, 1, vec![nogc(1, false)], 4),
            (Fam::Rtx, 0, vec![nogc(1, false), nogc(2, false)], 3),
            (Fam::Rtx, 4, vec![nogc(1, false)], 5),
            (Fam::Rtx, 4, vec![nogc(1, false), nogc(2, false)], 3),
            (Fam::Uni, 1, vec![nogc(1, true)], 4),
            (Fam::Uni, 0, vec![nogc(1, false)], 4),
            (Fam::Arr, 1, vec![nogc(1, false)], 5),
            (Fam::Arr, 1, vec![nogc(1, false), nogc(2, false)], 4),
            (Fam::Map, 2, vec![nogc(1, false)], 4),
            (Fam::Map, 1, vec![nogc(1, false), nogc(2, false)], 4),
            (Fam::Nest, 1, vec![nogc(1, false)], 4),
            (Fam::Nest, 0, vec![nogc(1, false), nogc(2, false)], 3),
            (Fam::Xml, 1, vec![nogc(1, false)], 4),
        ],
    }
}

fn run(ctx: &mut Ctx) {
    let mut idx = 0u64;
    for (fam, level, cfgs, depth) in bounds(ctx.tier) {
        let h = HistCfg {
            fam,
            level,
            cfgs: cfgs.clone(),
            depth,
            syncs: cfgs.len() > 1,
            partial: 0,
        };
        let shard = ctx.shard;
        let nsh = ctx.nshards as u64;
        let mut first = |_i: u64| {
            idx += 1;
            (idx % nsh) as usize == shard
        };
        let mut visit = |ctx: &mut Ctx, _w: &World, trace: &[Act]| {
            ctx.count(&format!("histories_{}_R{}", fam.name(), cfgs.len()), 1);
            let case = json!({"cfgs": cfgs, "trace": trace});
            let cj = || case.clone();
            ctx.exec(&cj, |ctx| check_history(ctx, &cfgs, trace, &cj));
            ctx.sample(cj);
        };
        explore_histories(ctx, &h, &mut first, &mut visit);
    }
}

fn replay(ctx: &mut Ctx, case: &Value) {
    let cfgs: Vec<RCfg> = match serde_json::from_value(case["cfgs"].clone()) {
        Ok(c) => c,
        Err(e) => return ctx.machinery_error(format!("bad case: {}", e)),
    };
    let trace: Vec<Act> = match serde_json::from_value(case["trace"].clone()) {
        Ok(c) => c,
        Err(e) => return ctx.machinery_error(format!("bad case: {}", e)),
    };
    let cj = || case.clone();
    ctx.exec(&cj, |ctx| check_history(ctx, &cfgs, &trace, &cj));
}

fn check_history(ctx: &mut Ctx, cfgs: &[RCfg], trace: &[Act], cj: &dyn Fn() -> Value) {
    // snapshots after every prefix
    let mut snaps: Vec<Vec<(Snapshot, Model)>> = Vec::new();
    for i in 0..=trace.len() {
        let Ok(w) = World::build(cfgs, &trace[..i]) else { return };
        ctx.count("transitions", i as u64);
        snaps.push(
            w.reps
                .iter()
                .map(|r| {
                    let txn = r.doc.transact();
                    (txn.snapshot(), r.roots.dump_all(&txn))
                })
                .collect(),
        );
    }
    let Ok(w) = World::build(cfgs, trace) else { return };
    let end_dumps: Vec<Model> = w.reps.iter().map(|r| r.dump()).collect();
    for (r, rep) in w.reps.iter().enumerate() {
        for i in 0..=trace.len() {
            let (snap, want) = &snaps[i][r];
            // snapshot round trip
            for v2 in [false, true] {
                let bytes = if v2 { snap.encode_v2() } else { snap.encode_v1() };
                let back = if v2 {
                    Snapshot::decode_v2(&bytes)
                } else {
                    Snapshot::decode_v1(&bytes)
                };
                match back {
                    Ok(b) if &b == snap => {}
                    Ok(b) => {
                        ctx.violation(
                            "snapshot-roundtrip",
                            "snapshot-decode-differs",
                            format!("replica {} snapshot {} (v2={}): decoded {:?} != {:?}", r, i, v2, b, snap),
                            cj(),
                        );
                        return;
                    }
                    Err(e) => {
                        ctx.violation(
                            "snapshot-roundtrip",
                            "snapshot-undecodable",
                            format!("replica {} snapshot {} (v2={}): {}", r, i, v2, e),
                            cj(),
                        );
                        return;
                    }
                }
            }
            for v2 in [false, true] {
                let txn = rep.doc.transact();
                let bytes = if v2 {
                    let mut enc = EncoderV2::new();
                    match txn.encode_state_from_snapshot(snap, &mut enc) {
                        Ok(()) => enc.to_vec(),
                        Err(e) => {
                            ctx.violation(
                                "snapshot-restore",
                                "encode-refused-on-gc-disabled-doc",
                                format!("replica {} snapshot {}: {}", r, i, e),
                                cj(),
                            );
                            return;
                        }
                    }
                } else {
                    let mut enc = EncoderV1::new();
                    match txn.encode_state_from_snapshot(snap, &mut enc) {
                        Ok(()) => enc.to_vec(),
                        Err(e) => {
                            ctx.violation(
                                "snapshot-restore",
                                "encode-refused-on-gc-disabled-doc",
                                format!("replica {} snapshot {}: {}", r, i, e),
                                cj(),
                            );
                            return;
                        }
                    }
                };
                drop(txn);
                let upd = if v2 {
                    Update::decode_v2(&bytes)
                } else {
                    Update::decode_v1(&bytes)
                };
                let upd = match upd {
                    Ok(u) => u,
                    Err(e) => {
                        ctx.violation(
                            "snapshot-restore",
                            "restored-state-undecodable",
                            format!(
                                "replica {}: state encoded from snapshot {} at step {} (v2={}) does not decode: {}",
                                r,
                                i,
                                trace.len(),
                                v2,
                                e
                            ),
                            cj(),
                        );
                        return;
                    }
                };
                let fresh = Replica::new(RCfg {
                    client: 77,
                    gc: false,
                    utf16: cfgs[r].utf16,
                    cleanup: false,
                });
                {
                    let mut t = fresh.doc.transact_mut();
                    if let Err(e) = t.apply_update(upd) {
                        ctx.violation(
                            "snapshot-restore",
                            "restored-state-unappliable",
                            format!("replica {} snapshot {}: {}", r, i, e),
                            cj(),
                        );
                        return;
                    }
                }
                let got = fresh.dump();
                if &got != want || fresh.pending() {
                    ctx.violation(
                        "snapshot-restore",
                        if fresh.pending() {
                            "restored-doc-pending"
                        } else {
                            "restored-content-differs"
                        },
                        format!(
                            "replica {}: snapshot taken after step {} showed {} but restoring it at step {} (v2={}) gives {} (pending={})",
                            r,
                            i,
                            show_model(want),
                            trace.len(),
                            v2,
                            show_model(&got),
                            fresh.pending()
                        ),
                        cj(),
                    );
                    return;
                }
            }
            let nonempty = want.values().any(|n| n.show().len() > 4);
            if nonempty && want != &end_dumps[r] {
                ctx.outcome(hash_of(&(want, &end_dumps[r])));
            }
        }
    }
    // gc-enabled twin refuses
    let mut gcfgs = cfgs.to_vec();
    for c in gcfgs.iter_mut() {
        c.gc = true;
    }
    if let Ok(wg) = World::build(&gcfgs, trace) {
        let rep = &wg.reps[0];
        let txn = rep.doc.transact();
        let snap = txn.snapshot();
        let mut enc = EncoderV1::new();
        if txn.encode_state_from_snapshot(&snap, &mut enc).is_ok() {
            ctx.violation(
                "snapshot-restore",
                "gc-enabled-doc-does-not-refuse",
                "encode_state_from_snapshot on a gc-enabled document returned Ok".into(),
                cj(),
            );
        }
    }
    let _ = rc;
}
