//! C02 — no update is lost or stuck because of delivery order (causal-gap buffer).
use super::conv::*;
use crate::engine::*;
use crate::ops::Fam;
use crate::world::*;
use serde_json::{json, Value};
use std::collections::BTreeSet;
use yrs::updates::decoder::Decode;
use yrs::verif::{BlockKind, ParentDump};
use yrs::Update;

pub fn def() -> PropDef {
    PropDef {
        id: "C02",
        title: "causal-gap buffer: nothing lost, nothing stuck",
        shards: |t| t.pick(48, 192),
        run,
        replay,
        rule: "C01's histories and subset lattices (every delivery order incl. same-sender reordering), oracle at EVERY lattice node: has_missing_updates() == (some delivered block lacks a dependency, computed as a least fixed point over origin/right-origin/parent/quoted ids taken from the decoded updates via the verif hook, or a delivered deletion targets an id not integrated); relay deviation: at every node the receiver exports encode_state_as_update(empty sv) v1/v2 into a fresh replica which then receives the withheld updates; at closed/full sets content, state vector and pending-ness must equal the reference. distinct_nontrivial = distinct (delivered set, pending) situations with a real gap",
        assumptions: &[
            "dependency ids come from yrs::verif::update_dump of the decoded pool updates",
            "happened-before tracked by the harness",
        ],
    }
}

pub fn bounds(tier: Tier) -> Vec<ConvBound> {
    let two = vec![rc(1, true), rc(2, true)];
    let one = vec![rc(1, true)];
    let mk = |fam, level, cfgs: &Vec<_>, depth, budget, kinds| ConvBound {
        fam,
        level,
        cfgs: cfgs.clone(),
        depth,
        budget,
        kinds,
        observers: vec![obs(true)],
        authors_receive: false,
        min_pool: 2,
    };
    match tier {
        Tier::Quick => vec![
            mk(Fam::Txt, 0, &one, 4, 1, K_RELAY | K_V2),
            mk(Fam::Txt, 0, &two, 3, 1, K_RELAY | K_V2 | K_MERGE),
            mk(Fam::Txt, 0, &two, 4, 0, 0),
            mk(Fam::Nest, 0, &two, 3, 1, K_RELAY),
            // fresh keys inside nested types: the parent is the only dependency of such a write
            mk(Fam::Nest, 1, &one, 3, 0, 0),
            mk(Fam::Map, 0, &two, 3, 1, K_RELAY),
            mk(Fam::Arr, 0, &two, 3, 1, K_RELAY),
        ],
        Tier::Thorough => vec![
            mk(Fam::Txt, 0, &one, 5, 1, K_RELAY | K_V2),
            mk(Fam::Txt, 1, &two, 4, 1, K_RELAY | K_V2 | K_MERGE),
            mk(Fam::Txt, 0, &two, 4, 2, K_RELAY | K_MERGE),
            mk(Fam::Txt, 0, &two, 5, 0, 0),
            mk(Fam::Nest, 0, &two, 4, 1, K_RELAY | K_V2),
            mk(Fam::Nest, 1, &one, 3, 0, 0),
            mk(Fam::Map, 1, &two, 4, 1, K_RELAY | K_V2),
            mk(Fam::Arr, 1, &two, 4, 1, K_RELAY | K_V2),
            mk(Fam::Rtx, 0, &two, 4, 1, K_RELAY),
            mk(Fam::Xml, 0, &two, 4, 1, K_RELAY),
        ],
    }
}

#[derive(Clone, Debug)]
struct BlockInfo {
    client: u64,
    clock: u32,
    len: u32,
    deps: Vec<(u64, u32)>,
}

#[derive(Default)]
pub struct C02Monitor {
    inner: C01Monitor,
    /// per pool update: its blocks and its deleted points
    blocks: Vec<Vec<BlockInfo>>,
    deletes: Vec<Vec<(u64, u32)>>,
    ok: bool,
}

impl C02Monitor {
    fn expected_pending(&self, mask: u32) -> (bool, String) {
        let mut all: Vec<&BlockInfo> = Vec::new();
        for (i, bs) in self.blocks.iter().enumerate() {
            if mask & (1 << i) != 0 {
                all.extend(bs.iter());
            }
        }
        // least fixed point of "all dependencies integrated"
        let mut covered: BTreeSet<(u64, u32)> = BTreeSet::new();
        let mut done = vec![false; all.len()];
        loop {
            let mut progress = false;
            for (k, b) in all.iter().enumerate() {
                if done[k] {
                    continue;
                }
                if b.deps.iter().all(|d| covered.contains(d)) {
                    done[k] = true;
                    progress = true;
                    for c in b.clock..b.clock + b.len {
                        covered.insert((b.client, c));
                    }
                }
            }
            if !progress {
                break;
            }
        }
        for (k, b) in all.iter().enumerate() {
            if !done[k] {
                // a block may be covered by another delivered copy of the same ids
                if (b.clock..b.clock + b.len).all(|c| covered.contains(&(b.client, c))) {
                    continue;
                }
                return (
                    true,
                    format!(
                        "block {}:{}+{} lacks a dependency among {:?}",
                        b.client, b.clock, b.len, b.deps
                    ),
                );
            }
        }
        for (i, ds) in self.deletes.iter().enumerate() {
            if mask & (1 << i) != 0 {
                for p in ds {
                    if !covered.contains(p) {
                        return (true, format!("deletion of {}:{} targets an id not integrated", p.0, p.1));
                    }
                }
            }
        }
        (false, "every delivered block has its dependencies".into())
    }
}

impl Monitor for C02Monitor {
    fn begin_pool(&mut self, ctx: &mut Ctx, b: &ConvBound, w: &World, trace: &[crate::world::Act]) {
        self.inner.begin_pool(ctx, b, w, trace);
        self.blocks.clear();
        self.deletes.clear();
        self.ok = true;
        for u in &w.pool {
            match Update::decode_v1(&u.v1) {
                Ok(upd) => {
                    let d = yrs::verif::update_dump(&upd);
                    let mut bs = Vec::new();
                    for (_, list) in &d.blocks {
                        for b in list {
                            if b.kind == BlockKind::Skip {
                                continue;
                            }
                            let mut deps = Vec::new();
                            if let Some(o) = b.origin {
                                deps.push(o);
                            }
                            if let Some(o) = b.right_origin {
                                deps.push(o);
                            }
                            if let ParentDump::Nested(p) = &b.parent {
                                deps.push(*p);
                            }
                            deps.extend(b.quoted.iter().copied());
                            bs.push(BlockInfo {
                                client: b.id.0,
                                clock: b.id.1,
                                len: b.len,
                                deps,
                            });
                        }
                    }
                    self.blocks.push(bs);
                    self.deletes.push(
                        d.delete_set
                            .iter()
                            .flat_map(|(c, s, e)| (*s..*e).map(move |k| (*c, k)))
                            .collect(),
                    );
                }
                Err(e) => {
                    ctx.violation(
                        "delivery-executes",
                        "pool-update-undecodable",
                        format!("an emitted update does not decode: {}", e),
                        case_json(b, trace, "pool", &[]),
                    );
                    self.ok = false;
                    return;
                }
            }
        }
    }

    fn node(&mut self, ctx: &mut Ctx, pool: &[Upd], node: &LatticeNode, case: &dyn Fn() -> Value) {
        if !self.ok {
            return;
        }
        let rep = node.recv.rep();
        let got = rep.pending();
        let (want, why) = self.expected_pending(node.mask);
        if !node.closed {
            ctx.outcome(hash_of(&(node.mask, got, rep.store_hash())));
        }
        if got != want {
            ctx.violation(
                "pending-exactness",
                if got {
                    "reports-missing-but-no-dependency-absent"
                } else {
                    "dependency-absent-but-not-reported"
                },
                format!(
                    "delivered set {:#b}: has_missing_updates()={} but {} ({})",
                    node.mask,
                    got,
                    why,
                    show_store(&rep.store_dump()).replace('\n', " ")
                ),
                case(),
            );
            return;
        }
        self.inner.node(ctx, pool, node, case);
    }
}

fn run(ctx: &mut Ctx) {
    let b = bounds(ctx.tier);
    let mut mon = C02Monitor::default();
    run_conv(ctx, &b, &mut mon);
    graphs(ctx);
}

fn replay(ctx: &mut Ctx, case: &Value) {
    if case.get("graph").is_some() {
        let g: Vec<(u64, Option<usize>)> = match serde_json::from_value(case["graph"].clone()) {
            Ok(g) => g,
            Err(e) => return ctx.machinery_error(format!("bad case: {}", e)),
        };
        let order: Vec<usize> = serde_json::from_value(case["order"].clone()).unwrap_or_default();
        let bundle = case["bundle"].as_bool().unwrap_or(false);
        let cj = || case.clone();
        if let Some(Err((class, msg))) = ctx.exec(&cj, |_| graph_case(&g, &order, bundle)) {
            ctx.violation("pending-exactness", &class, msg, cj());
        }
        return;
    }
    let b = bounds(Tier::Quick);
    let mut mon = C02Monitor::default();
    replay_case(ctx, case, &mut mon, &b[0]);
}

// ---------------------------------------------------------------------------------------------
// dependency graphs written by hand: N one-character blocks of three clients in the root text, each
// anchored (left origin) to nothing or to ANY earlier block - waiting chains of every shape, which
// histories of a few operations on two replicas cannot produce. Every block is its own update; all
// delivery orders, and the bundle of all-but-one followed by the withheld one.

/// right origins as a real editor would have recorded them: every block is typed right behind its left
/// origin (or at the very start) by someone who sees all earlier blocks; its right origin is whatever
/// stood there at that moment
fn graph_rights(g: &[(u64, Option<usize>)]) -> Vec<Option<usize>> {
    let mut seq: Vec<usize> = Vec::new();
    let mut rights = Vec::new();
    for (j, (_, origin)) in g.iter().enumerate() {
        let pos = match origin {
            Some(o) => seq.iter().position(|x| x == o).map(|p| p + 1).unwrap_or(0),
            None => 0,
        };
        rights.push(seq.get(pos).copied());
        seq.insert(pos, j);
    }
    rights
}

/// v1 update holding block `j` of the graph (ids: client, per-client clock)
fn graph_update(g: &[(u64, Option<usize>)], j: usize) -> Vec<u8> {
    let clock = |k: usize| g[..k].iter().filter(|b| b.0 == g[k].0).count() as u8;
    let (client, origin) = g[j];
    let right = graph_rights(g)[j];
    let ch = b'a' + j as u8;
    let mut u = vec![1, 1, client as u8, clock(j)];
    let info = 4u8 | if origin.is_some() { 0x80 } else { 0 } | if right.is_some() { 0x40 } else { 0 };
    u.push(info);
    if let Some(o) = origin {
        u.extend_from_slice(&[g[o].0 as u8, clock(o)]);
    }
    if let Some(r) = right {
        u.extend_from_slice(&[g[r].0 as u8, clock(r)]);
    }
    if origin.is_none() && right.is_none() {
        u.extend_from_slice(&[1, 1, b't']);
    }
    u.extend_from_slice(&[1, ch, 0]);
    u
}

/// what a block waits for: its left and right origin (a gap in its own client's clocks is no reason to wait)
fn graph_deps(g: &[(u64, Option<usize>)], j: usize) -> Vec<usize> {
    let mut d: Vec<usize> = g[j].1.into_iter().collect();
    d.extend(graph_rights(g)[j]);
    d
}

fn graph_case(g: &[(u64, Option<usize>)], order: &[usize], bundle: bool) -> Result<(), (String, String)> {
    let n = g.len();
    let reference = {
        let r = Replica::new(RCfg { client: 90, gc: true, utf16: false, cleanup: false });
        for j in 0..n {
            r.apply(&graph_update(g, j), false).map_err(|e| ("harness".to_string(), format!("creation order not appliable: {}", e)))?;
        }
        if r.pending() {
            return Err(("harness".to_string(), "creation order leaves something pending".into()));
        }
        r.dump()
    };
    let rep = Replica::new(RCfg { client: 91, gc: true, utf16: false, cleanup: false });
    let mut delivered: Vec<bool> = vec![false; n];
    let closed = |d: &Vec<bool>| (0..n).all(|j| !d[j] || graph_deps(g, j).iter().all(|&p| d[p]));
    if bundle {
        // everything but the first of `order` in one merged update, then the withheld one
        let rest: Vec<Vec<u8>> = order[1..].iter().map(|&j| graph_update(g, j)).collect();
        let merged = yrs::merge_updates_v1(rest.iter().map(|v| v.as_slice())).map_err(|e| ("merge-fails".to_string(), e.to_string()))?;
        rep.apply(&merged, false).map_err(|e| ("apply-fails".to_string(), e))?;
        for &j in &order[1..] {
            delivered[j] = true;
        }
        if rep.pending() == closed(&delivered) {
            return Err(("pending-flag-wrong".to_string(), format!("after the bundle of {:?}: has_missing_updates()={} but the delivered set is {}closed", &order[1..], rep.pending(), if closed(&delivered) { "" } else { "not " })));
        }
        rep.apply(&graph_update(g, order[0]), false).map_err(|e| ("apply-fails".to_string(), e))?;
        delivered[order[0]] = true;
    } else {
        for &j in order {
            rep.apply(&graph_update(g, j), false).map_err(|e| ("apply-fails".to_string(), e))?;
            delivered[j] = true;
            if rep.pending() == closed(&delivered) {
                return Err(("pending-flag-wrong".to_string(), format!("after delivering {:?} of order {:?}: has_missing_updates()={} but the delivered set is {}closed", j, order, rep.pending(), if closed(&delivered) { "" } else { "not " })));
            }
        }
    }
    if rep.pending() {
        return Err(("stuck-pending".to_string(), "everything delivered, still reports missing updates".into()));
    }
    if rep.dump() != reference {
        return Err(("content-differs".to_string(), format!("{} vs creation order {}", super::conv::show_model(&rep.dump()), super::conv::show_model(&reference))));
    }
    Ok(())
}

fn perms(n: usize) -> Vec<Vec<usize>> {
    fn rec(cur: &mut Vec<usize>, used: &mut Vec<bool>, out: &mut Vec<Vec<usize>>) {
        if cur.len() == used.len() {
            out.push(cur.clone());
            return;
        }
        for i in 0..used.len() {
            if !used[i] {
                used[i] = true;
                cur.push(i);
                rec(cur, used, out);
                cur.pop();
                used[i] = false;
            }
        }
    }
    let mut out = Vec::new();
    rec(&mut Vec::new(), &mut vec![false; n], &mut out);
    out
}

fn graphs(ctx: &mut Ctx) {
    let n = 5usize;
    let orders = perms(n);
    // creation sequences: which client writes the j-th block (ids 1..3, at most 3 blocks each)
    let mut idx = 0u64;
    let mut seqs: Vec<Vec<u64>> = vec![vec![]];
    for _ in 0..n {
        seqs = seqs.into_iter().flat_map(|p| (1..=3u64).map(move |c| { let mut q = p.clone(); q.push(c); q })).collect();
    }
    for seq in seqs {
        if (1..=3u64).any(|c| seq.iter().filter(|&&x| x == c).count() > 3) {
            continue;
        }
        // origins: none or any earlier block
        let mut graphs: Vec<Vec<(u64, Option<usize>)>> = vec![vec![]];
        for j in 0..n {
            graphs = graphs
                .into_iter()
                .flat_map(|p| {
                    let c = seq[j];
                    (0..=j).map(move |o| {
                        let mut q = p.clone();
                        q.push((c, if o == 0 { None } else { Some(o - 1) }));
                        q
                    })
                })
                .collect();
        }
        for g in graphs {
            idx += 1;
            if !ctx.mine(idx) {
                continue;
            }
            if ctx.out_of_time() {
                return;
            }
            ctx.count("dependency_graphs", 1);
            // the quick tier walks every third graph's bundles, the thorough tier all of them
            let bundles = ctx.tier == Tier::Thorough || idx % 3 == 0;
            let case0 = json!({"graph": g});
            let res = ctx.exec(&|| case0.clone(), |ctx| {
                let mut bad: Option<(String, String, Vec<usize>, bool)> = None;
                for order in &orders {
                    ctx.count("transitions", n as u64);
                    if let Err((c, m)) = graph_case(&g, order, false) {
                        bad = Some((c, m, order.clone(), false));
                        break;
                    }
                    if bundles {
                        if let Err((c, m)) = graph_case(&g, order, true) {
                            bad = Some((c, m, order.clone(), true));
                            break;
                        }
                    }
                }
                bad
            });
            ctx.state(hash_of(&("graph", &g)));
            if let Some(Some((class, msg, order, bundle))) = res {
                let case = json!({"graph": g, "order": order, "bundle": bundle});
                if class == "harness" {
                    ctx.machinery_error(format!("{} on {}", msg, case));
                } else {
                    ctx.violation("pending-exactness", &format!("graph:{}", class), format!("blocks {:?} (client, left origin = index of an earlier block): {}", g, msg), case);
                }
            }
        }
    }
}
