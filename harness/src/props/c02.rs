//! C02 — no update is lost or stuck because of delivery order (causal-gap buffer).
use super::conv::*;
use crate::engine::*;
use crate::ops::Fam;
use crate::world::*;
use serde_json::Value;
use std::collections::BTreeSet;
use yrs::updates::decoder::Decode;
use yrs::verif::{BlockKind, ParentDump};
use yrs::Update;

pub fn def() -> PropDef {
    PropDef {
        id: "C02",
        title: "causal-gap buffer: nothing lost, nothing stuck",
        shards: |t| t.pick(48, 192),
        run,
        replay,
        rule: "C01's histories and subset lattices (every delivery order incl. same-sender reordering), oracle at EVERY lattice node: has_missing_updates() == (some delivered block lacks a dependency, computed as a least fixed point over origin/right-origin/parent/quoted ids taken from the decoded updates via the verif hook, or a delivered deletion targets an id not integrated); relay deviation: at every node the receiver exports encode_state_as_update(empty sv) v1/v2 into a fresh replica which then receives the withheld updates; at closed/full sets content, state vector and pending-ness must equal the reference. distinct_nontrivial = distinct (delivered set, pending) situations with a real gap",
        assumptions: &[
            "dependency ids come from yrs::verif::update_dump of the decoded pool updates",
            "happened-before tracked by the harness",
        ],
    }
}

pub fn bounds(tier: Tier) -> Vec<ConvBound> {
    let two = vec![rc(1, true), rc(2, true)];
    let one = vec![rc(1, true)];
    let mk = |fam, level, cfgs: &Vec<_>, depth, budget, kinds| ConvBound {
        fam,
        level,
        cfgs: cfgs.clone(),
        depth,
        budget,
        kinds,
        observers: vec![obs(true)],
        authors_receive: false,
        min_pool: 2,
    };
    match tier {
        Tier::Quick => vec![
            mk(Fam::Txt, 0, &one, 4, 1, K_RELAY | K_V2),
            mk(Fam::Txt, 0, &two, 3, 1, K_RELAY | K_V2 | K_MERGE),
            mk(Fam::Txt, 0, &two, 4, 0, 0),
            mk(Fam::Nest, 0, &two, 3, 1, K_RELAY),
            mk(Fam::Map, 0, &two, 3, 1, K_RELAY),
            mk(Fam::Arr, 0, &two, 3, 1, K_RELAY),
        ],
        Tier::Thorough => vec![
            mk(Fam::Txt, 0, &one, 5, 1, K_RELAY | K_V2),
            mk(Fam::Txt, 1, &two, 4, 1, K_RELAY | K_V2 | K_MERGE),
            mk(Fam::Txt, 0, &two, 4, 2, K_RELAY | K_MERGE),
            mk(Fam::Txt, 0, &two, 5, 0, 0),
            mk(Fam::Nest, 0, &two, 4, 1, K_RELAY | K_V2),
            mk(Fam::Map, 1, &two, 4, 1, K_RELAY | K_V2),
            mk(Fam::Arr, 1, &two, 4, 1, K_RELAY | K_V2),
            mk(Fam::Rtx, 0, &two, 4, 1, K_RELAY),
            mk(Fam::Xml, 0, &two, 4, 1, K_RELAY),
        ],
    }
}

#[derive(Clone, Debug)]
struct BlockInfo {
    client: u64,
    clock: u32,
    len: u32,
    deps: Vec<(u64, u32)>,
}

#[derive(Default)]
pub struct C02Monitor {
    inner: C01Monitor,
    /// per pool update: its blocks and its deleted points
    blocks: Vec<Vec<BlockInfo>>,
    deletes: Vec<Vec<(u64, u32)>>,
    ok: bool,
}

impl C02Monitor {
    fn expected_pending(&self, mask: u32) -> (bool, String) {
        let mut all: Vec<&BlockInfo> = Vec::new();
        for (i, bs) in self.blocks.iter().enumerate() {
            if mask & (1 << i) != 0 {
                all.extend(bs.iter());
            }
        }
        // least fixed point of "all dependencies integrated"
        let mut covered: BTreeSet<(u64, u32)> = BTreeSet::new();
        let mut done = vec![false; all.len()];
        loop {
            let mut progress = false;
            for (k, b) in all.iter().enumerate() {
                if done[k] {
                    continue;
                }
                if b.deps.iter().all(|d| covered.contains(d)) {
                    done[k] = true;
                    progress = true;
                    for c in b.clock..b.clock + b.len {
                        covered.insert((b.client, c));
                    }
                }
            }
            if !progress {
                break;
            }
        }
        for (k, b) in all.iter().enumerate() {
            if !done[k] {
                // a block may be covered by another delivered copy of the same ids
                if (b.clock..b.clock + b.len).all(|c| covered.contains(&(b.client, c))) {
                    continue;
                }
                return (
                    true,
                    format!(
                        "block {}:{}+{} lacks a dependency among {:?}",
                        b.client, b.clock, b.len, b.deps
                    ),
                );
            }
        }
        for (i, ds) in self.deletes.iter().enumerate() {
            if mask & (1 << i) != 0 {
                for p in ds {
                    if !covered.contains(p) {
                        return (true, format!("deletion of {}:{} targets an id not integrated", p.0, p.1));
                    }
                }
            }
        }
        (false, "every delivered block has its dependencies".into())
    }
}

impl Monitor for C02Monitor {
    fn begin_pool(&mut self, ctx: &mut Ctx, b: &ConvBound, w: &World, trace: &[crate::world::Act]) {
        self.inner.begin_pool(ctx, b, w, trace);
        self.blocks.clear();
        self.deletes.clear();
        self.ok = true;
        for u in &w.pool {
            match Update::decode_v1(&u.v1) {
                Ok(upd) => {
                    let d = yrs::verif::update_dump(&upd);
                    let mut bs = Vec::new();
                    for (_, list) in &d.blocks {
                        for b in list {
                            if b.kind == BlockKind::Skip {
                                continue;
                            }
                            let mut deps = Vec::new();
                            if let Some(o) = b.origin {
                                deps.push(o);
                            }
                            if let Some(o) = b.right_origin {
                                deps.push(o);
                            }
                            if let ParentDump::Nested(p) = &b.parent {
                                deps.push(*p);
                            }
                            deps.extend(b.quoted.iter().copied());
                            bs.push(BlockInfo {
                                client: b.id.0,
                                clock: b.id.1,
                                len: b.len,
                                deps,
                            });
                        }
                    }
                    self.blocks.push(bs);
                    self.deletes.push(
                        d.delete_set
                            .iter()
                            .flat_map(|(c, s, e)| (*s..*e).map(move |k| (*c, k)))
                            .collect(),
                    );
                }
                Err(e) => {
                    ctx.violation(
                        "delivery-executes",
                        "pool-update-undecodable",
                        format!("an emitted update does not decode: {}", e),
                        case_json(b, trace, "pool", &[]),
                    );
                    self.ok = false;
                    return;
                }
            }
        }
    }

    fn node(&mut self, ctx: &mut Ctx, pool: &[Upd], node: &LatticeNode, case: &dyn Fn() -> Value) {
        if !self.ok {
            return;
        }
        let rep = node.recv.rep();
        let got = rep.pending();
        let (want, why) = self.expected_pending(node.mask);
        if !node.closed {
            ctx.outcome(hash_of(&(node.mask, got, rep.store_hash())));
        }
        if got != want {
            ctx.violation(
                "pending-exactness",
                if got {
                    "reports-missing-but-no-dependency-absent"
                } else {
                    "dependency-absent-but-not-reported"
                },
                format!(
                    "delivered set {:#b}: has_missing_updates()={} but {} ({})",
                    node.mask,
                    got,
                    why,
                    show_store(&rep.store_dump()).replace('\n', " ")
                ),
                case(),
            );
            return;
        }
        self.inner.node(ctx, pool, node, case);
    }
}

fn run(ctx: &mut Ctx) {
    let b = bounds(ctx.tier);
    let mut mon = C02Monitor::default();
    run_conv(ctx, &b, &mut mon);
}

fn replay(ctx: &mut Ctx, case: &Value) {
    let b = bounds(Tier::Quick);
    let mut mon = C02Monitor::default();
    replay_case(ctx, case, &mut mon, &b[0]);
}
