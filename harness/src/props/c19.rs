//! C19 — the C API is a faithful projection of the Rust API.
//!
//! The repository's `yffi/src/lib.rs` is compiled into this binary (`crate::yffi`), so the calls
//! below go through the real `extern "C"` symbols with C-ABI argument marshalling. Every program
//! of <= L calls is executed twice: through the C functions on a document D and through the
//! Rust API on a twin T with equal options. A panic inside an `extern "C"` function aborts the
//! process; the supervisor attributes the death to the journalled program.
use crate::engine::*;
use crate::model::*;
use crate::ops::*;
use crate::yffi as c;
use serde::{Deserialize, Serialize};
use serde_json::{json, Value};
use std::collections::BTreeMap;
use std::ffi::{c_char, CStr, CString};
use std::ptr::{null, null_mut};
use yrs::updates::decoder::Decode;
use yrs::updates::encoder::Encode;
use yrs::{Assoc, Doc, OffsetKind, Options, ReadTxn, StateVector, StickyIndex, Transact, UndoManager, Update};

pub fn def() -> PropDef {
    PropDef {
        id: "C19",
        title: "the C API is a faithful projection of the Rust API",
        shards: |t| t.pick(32, 128),
        run,
        replay,
        rule: "all programs of <= L calls per family (text plain/rich/unicode, array, map, xml, nested; the C03 alphabets minus calls without a C counterpart, plus insertion of EVERY input cell kind: null, undefined, bool, float, long incl. extremes, strings incl. empty and non-ASCII, binary incl. empty, JSON arrays/maps incl. nested and non-ASCII keys, nested ymap/yarray/ytext/yxmlelem/yxmltext) x all commit groupings x {Bytes,Utf16} x gc on/off. Each program runs through the exported C functions on document D (ydoc_new_with_options, ydoc_write_transaction, ytext_*/yarray_*/ymap_*/yxmlelem_*/yxmltext_*, ytransaction_commit) and through the Rust API on twin T. After every call (inside the open transaction) the content of D read ONLY through C getters (ytext_chunks/string/len, yarray_len/get/iter, ymap_len/get/iter, yxmlelem_tag/child_len/get/first_child/next_sibling/prev_sibling/parent/attr_iter/get_attr/string, yxmltext_*, youtput_read_*) must equal T's visible dump; after every commit additionally: internal store of D == internal store of T (hook dump), ytransaction_state_vector_v1 / state_diff_v1 / state_diff_v2 (null, empty and every earlier state vector) / ytransaction_snapshot / encode_state_from_snapshot_v1/v2 (every earlier snapshot, gc off) byte-equal to the Rust calls on T, yarray_get_json / ymap_get_json equal to_json of T. At the end: a fresh Rust replica fed ytransaction_state_diff_v1 of D and a fresh C replica fed T's update through ytransaction_apply / apply_v2 both show T's content; sticky indexes created through ysticky_index_from_index at every index x association after every commit encode (binary and JSON) like StickyIndex::at on T and ysticky_index_read agrees with get_offset on T after every later commit; yundo_manager undo .. undo redo .. redo on D matches UndoManager on T step by step. distinct_nontrivial = distinct final visible dumps",
        assumptions: &[
            "C functions are called through their C ABI from Rust (the crate's source is compiled into the harness); the generated header libyrs.h is not checked",
            "strings without interior NUL; indices in range (the C API aborts otherwise)",
            "undo managers use capture_timeout_millis = 0 on both sides (every transaction its own stack item)",
        ],
    }
}

#[derive(Clone, Debug, Serialize, Deserialize)]
pub struct Case {
    pub fam: Fam,
    pub utf16: bool,
    pub gc: bool,
    pub level: u8,
    pub undo: bool,
    /// bit i set: the transaction that starts with op i runs under origin "o1", which the undo managers track
    /// (0: no origin is configured anywhere)
    #[serde(default)]
    pub origins: u32,
    /// (op, commit after it)
    pub prog: Vec<(Op, bool)>,
}

// ---------------------------------------------------------------------------------------------
// input cells

/// keeps the memory that YInput cells point to alive for the duration of a call
#[derive(Default)]
struct Keep {
    strs: Vec<CString>,
    inputs: Vec<Box<[c::YInput]>>,
    keys: Vec<Box<[*mut c_char]>>,
    bufs: Vec<Vec<u8>>,
}

impl Keep {
    fn s(&mut self, s: &str) -> *mut c_char {
        let cs = CString::new(s).expect("harness strings have no interior NUL");
        let p = cs.as_ptr() as *mut c_char;
        self.strs.push(cs);
        p
    }
    fn arr(&mut self, v: Vec<c::YInput>) -> *mut c::YInput {
        let mut b = v.into_boxed_slice();
        let p = b.as_mut_ptr();
        self.inputs.push(b);
        p
    }
    fn keyv(&mut self, v: Vec<*mut c_char>) -> *mut *mut c_char {
        let mut b = v.into_boxed_slice();
        let p = b.as_mut_ptr();
        self.keys.push(b);
        p
    }
}

unsafe fn mk_any(v: &AnyV, k: &mut Keep) -> c::YInput {
    match v {
        AnyV::Null => c::yinput_null(),
        AnyV::Undef => c::yinput_undefined(),
        AnyV::Bool(b) => c::yinput_bool(*b as u8),
        AnyV::Num(bits) => c::yinput_float(f64::from_bits(*bits)),
        AnyV::Big(i) => c::yinput_long(*i),
        AnyV::Str(s) => c::yinput_string(k.s(s)),
        AnyV::Buf(b) => {
            k.bufs.push(b.clone());
            let p = k.bufs.last().unwrap().as_ptr();
            c::yinput_binary(p as *const c_char, b.len() as u32)
        }
        AnyV::Arr(a) => {
            let items: Vec<c::YInput> = a.iter().map(|x| mk_any(x, k)).collect();
            let n = items.len() as u32;
            let p = k.arr(items);
            c::yinput_json_array(p, n)
        }
        AnyV::Map(m) => {
            let keys: Vec<*mut c_char> = m.keys().map(|s| k.s(s)).collect();
            let vals: Vec<c::YInput> = m.values().map(|x| mk_any(x, k)).collect();
            let n = vals.len() as u32;
            let kp = k.keyv(keys);
            let vp = k.arr(vals);
            c::yinput_json_map(kp, vp, n)
        }
    }
}

unsafe fn mk_val(v: &Val, k: &mut Keep) -> c::YInput {
    match v {
        Val::Any(a) => mk_any(a, k),
        Val::Map(kv) => {
            let keys: Vec<*mut c_char> = kv.iter().map(|(s, _)| k.s(s)).collect();
            let vals: Vec<c::YInput> = kv.iter().map(|(_, x)| mk_any(x, k)).collect();
            let n = vals.len() as u32;
            let kp = k.keyv(keys);
            let vp = k.arr(vals);
            c::yinput_ymap(kp, vp, n)
        }
        Val::Array(a) => {
            let items: Vec<c::YInput> = a.iter().map(|x| mk_any(x, k)).collect();
            let n = items.len() as u32;
            let p = k.arr(items);
            c::yinput_yarray(p, n)
        }
        Val::Text(s) => c::yinput_ytext(k.s(s)),
        Val::XmlElem(tag) => c::yinput_yxmlelem(k.s(tag)),
        Val::XmlText(s) => c::yinput_yxmltext(k.s(s)),
    }
}

unsafe fn mk_attrs(a: &AttrsV, k: &mut Keep) -> c::YInput {
    mk_any(&AnyV::Map(a.clone()), k)
}

/// every input cell kind the C API accepts (sub-documents and weak links aside)
pub fn cells() -> Vec<Val> {
    let m = |kv: Vec<(&str, AnyV)>| AnyV::Map(kv.into_iter().map(|(k, v)| (k.to_string(), v)).collect());
    vec![
        Val::Any(AnyV::Null),
        Val::Any(AnyV::Undef),
        Val::Any(AnyV::Bool(true)),
        Val::Any(AnyV::Bool(false)),
        Val::Any(AnyV::num(1.5)),
        Val::Any(AnyV::num(-0.0)),
        Val::Any(AnyV::num(f64::MAX)),
        Val::Any(AnyV::Big(i64::MIN)),
        Val::Any(AnyV::Big((1i64 << 53) + 1)),
        Val::Any(AnyV::s("")),
        Val::Any(AnyV::s("h\u{e9}llo\u{1f600}")),
        Val::Any(AnyV::Buf(vec![])),
        Val::Any(AnyV::Buf(vec![0, 255, 0, 7])),
        Val::Any(AnyV::Arr(vec![])),
        Val::Any(AnyV::Arr(vec![AnyV::Null, AnyV::s("\u{e9}"), AnyV::Arr(vec![AnyV::Big(-1)]), m(vec![("k", AnyV::Bool(true))])])),
        Val::Any(m(vec![])),
        Val::Any(m(vec![("k", AnyV::num(2.0)), ("\u{e9}\u{1f600}", m(vec![("x", AnyV::Buf(vec![1]))])), ("a", AnyV::Arr(vec![AnyV::Undef]))])),
        Val::Map(vec![("k1".into(), AnyV::s("\u{e9}")), ("\u{1f600}".into(), AnyV::Big(7))]),
        Val::Map(vec![]),
        Val::Array(vec![AnyV::s("x"), AnyV::Big(-9), AnyV::Null]),
        Val::Array(vec![]),
        Val::Text("t\u{e9}\u{1f600}".into()),
        Val::Text("".into()),
        Val::XmlElem("p".into()),
        Val::XmlText("x\u{e9}".into()),
    ]
}

// ---------------------------------------------------------------------------------------------
// C-side document

struct CDoc {
    doc: *mut c::Doc,
    _guid: CString,
    /// root branches, fetched once while no transaction is open (ytext() & co. open one themselves)
    roots: [(*mut c::Branch, i8); 4],
}

impl CDoc {
    unsafe fn new(client: u64, utf16: bool, gc: bool) -> CDoc {
        let guid = CString::new(format!("doc-{}", client)).unwrap();
        let mut flags = 0u8;
        if utf16 {
            flags |= c::Y_OFFSET_UTF16;
        }
        if !gc {
            flags |= c::Y_SKIP_GC;
        }
        let o = c::YOptions { id: client, guid: guid.as_ptr(), collection_id: null(), flags };
        let doc = c::ydoc_new_with_options(o);
        let name = |ch: &str| CString::new(ch).unwrap();
        let roots = [
            (c::ytext(doc, name("t").as_ptr()), c::Y_TEXT),
            (c::yarray(doc, name("a").as_ptr()), c::Y_ARRAY),
            (c::ymap(doc, name("m").as_ptr()), c::Y_MAP),
            (c::yxmlfragment(doc, name("x").as_ptr()), c::Y_XML_FRAG),
        ];
        CDoc { doc, _guid: guid, roots }
    }
    fn native(&self) -> &Doc {
        unsafe { &*self.doc }
    }
    unsafe fn root(&self, ch: char) -> (*mut c::Branch, i8) {
        match ch {
            't' => self.roots[0],
            'a' => self.roots[1],
            'm' => self.roots[2],
            _ => self.roots[3],
        }
    }
}

impl Drop for CDoc {
    fn drop(&mut self) {
        unsafe { c::ydoc_destroy(self.doc) }
    }
}

fn twin_doc(client: u64, utf16: bool, gc: bool) -> Doc {
    let mut o = Options::with_client_id(yrs::ClientID::new(client));
    o.guid = format!("doc-{}", client).into();
    o.offset_kind = if utf16 { OffsetKind::Utf16 } else { OffsetKind::Bytes };
    o.skip_gc = !gc;
    Doc::with_options(o)
}

/// branch pointer + kind tag carried by an output cell (None for JSON-like cells)
unsafe fn out_branch(o: *const c::YOutput) -> Option<(*mut c::Branch, i8)> {
    let tag = (*o).tag;
    let b = match tag {
        c::Y_ARRAY => c::youtput_read_yarray(o),
        c::Y_MAP => c::youtput_read_ymap(o),
        c::Y_TEXT => c::youtput_read_ytext(o),
        c::Y_XML_ELEM => c::youtput_read_yxmlelem(o),
        c::Y_XML_TEXT => c::youtput_read_yxmltext(o),
        _ => return None,
    };
    if b.is_null() {
        None
    } else {
        Some((b, tag))
    }
}

unsafe fn resolve_c(d: &CDoc, txn: *const c::Transaction, t: &Tgt) -> Result<(*mut c::Branch, i8), String> {
    let (mut cur, mut kind) = d.root(t.root);
    for s in &t.path {
        let out: *mut c::YOutput = match (s, kind) {
            (Seg::I(i), c::Y_ARRAY) => c::yarray_get(cur, txn, *i),
            (Seg::I(i), c::Y_XML_FRAG) | (Seg::I(i), c::Y_XML_ELEM) => c::yxmlelem_get(cur, txn, *i) as *mut c::YOutput,
            (Seg::K(k), c::Y_MAP) => {
                let key = CString::new(k.as_str()).unwrap();
                c::ymap_get(cur, txn, key.as_ptr())
            }
            _ => return Err(format!("segment {:?} does not apply to a type of kind {}", s, kind)),
        };
        if out.is_null() {
            return Err(format!("C getter returned NULL for segment {:?}", s));
        }
        let r = out_branch(out);
        c::youtput_destroy(out);
        let (b, k) = r.ok_or_else(|| format!("segment {:?}: output cell is not a shared type", s))?;
        if c::ytype_kind(b) != k {
            return Err(format!("ytype_kind says {} for a cell tagged {}", c::ytype_kind(b), k));
        }
        cur = b;
        kind = k;
    }
    Ok((cur, kind))
}

/// Execute `op` through the C API. `model` is the reference state before the call (unit -> offset).
unsafe fn apply_c(d: &CDoc, txn: *mut c::Transaction, kind: OffsetKind, model: &Model, op: &Op) -> Result<(), String> {
    let (b, bk) = resolve_c(d, txn, op.tgt())?;
    let mut k = Keep::default();
    let units: Vec<Unit> = match node_resolve(model, op.tgt()) {
        Some(Node::Text(u)) => u.clone(),
        Some(Node::XmlText { units, .. }) => units.clone(),
        _ => Vec::new(),
    };
    let xt = bk == c::Y_XML_TEXT;
    match op {
        Op::TIns { i, s, .. } => {
            let off = unit_offset(&units, *i, kind);
            if xt {
                c::yxmltext_insert(b, txn, off, k.s(s), null());
            } else {
                c::ytext_insert(b, txn, off, k.s(s), null());
            }
        }
        Op::TPush { s, .. } => {
            let off = units_len(&units, kind);
            if xt {
                c::yxmltext_insert(b, txn, off, k.s(s), null());
            } else {
                c::ytext_insert(b, txn, off, k.s(s), null());
            }
        }
        Op::TInsA { i, s, attrs, .. } => {
            let off = unit_offset(&units, *i, kind);
            let a = mk_attrs(attrs, &mut k);
            if xt {
                c::yxmltext_insert(b, txn, off, k.s(s), &a);
            } else {
                c::ytext_insert(b, txn, off, k.s(s), &a);
            }
        }
        Op::TEmbed { i, v, attrs, .. } => {
            let off = unit_offset(&units, *i, kind);
            let content = mk_any(v, &mut k);
            let a = attrs.as_ref().map(|a| mk_attrs(a, &mut k));
            let ap = a.as_ref().map(|a| a as *const c::YInput).unwrap_or(null());
            if xt {
                c::yxmltext_insert_embed(b, txn, off, &content, ap);
            } else {
                c::ytext_insert_embed(b, txn, off, &content, ap);
            }
        }
        Op::TEmbedT { i, v, .. } => {
            // a shared type (yarray / ymap / ytext input cell) embedded as one unit of the text
            let off = unit_offset(&units, *i, kind);
            let content = mk_val(v, &mut k);
            if xt {
                c::yxmltext_insert_embed(b, txn, off, &content, null());
            } else {
                c::ytext_insert_embed(b, txn, off, &content, null());
            }
        }
        Op::TFmt { i, n, attrs, .. } => {
            let off = unit_offset(&units, *i, kind);
            let len = unit_offset(&units, *i + *n, kind) - off;
            let a = mk_attrs(attrs, &mut k);
            if xt {
                c::yxmltext_format(b, txn, off, len, &a);
            } else {
                c::ytext_format(b, txn, off, len, &a);
            }
        }
        Op::TDel { i, n, .. } => {
            let off = unit_offset(&units, *i, kind);
            let len = unit_offset(&units, *i + *n, kind) - off;
            if xt {
                c::yxmltext_remove_range(b, txn, off, len);
            } else {
                c::ytext_remove_range(b, txn, off, len);
            }
        }
        Op::TDelta { d: delta, .. } => {
            let mut cur = 0usize;
            // cells referenced by pointer from the delta entries
            let mut cells: Vec<Box<c::YInput>> = Vec::new();
            let mut ds: Vec<c::YDeltaIn> = Vec::new();
            for o in delta {
                match o {
                    DOp::Retain(n, a) => {
                        let len = unit_offset(&units, cur + n, kind) - unit_offset(&units, cur, kind);
                        cur += n;
                        let ap = match a {
                            Some(a) => {
                                cells.push(Box::new(mk_attrs(a, &mut k)));
                                &**cells.last().unwrap() as *const c::YInput
                            }
                            None => null(),
                        };
                        ds.push(c::ydelta_input_retain(len, ap));
                    }
                    DOp::Ins(s, a) => {
                        cells.push(Box::new(c::yinput_string(k.s(s))));
                        let dp = &**cells.last().unwrap() as *const c::YInput;
                        let ap = match a {
                            Some(a) => {
                                cells.push(Box::new(mk_attrs(a, &mut k)));
                                &**cells.last().unwrap() as *const c::YInput
                            }
                            None => null(),
                        };
                        ds.push(c::ydelta_input_insert(dp, ap));
                    }
                    DOp::Del(n) => {
                        let len = unit_offset(&units, cur + n, kind) - unit_offset(&units, cur, kind);
                        cur += n;
                        ds.push(c::ydelta_input_delete(len));
                    }
                }
            }
            c::ytext_insert_delta(b, txn, ds.as_mut_ptr(), ds.len() as u32);
        }
        Op::AIns { i, v, .. } => {
            let cell = mk_val(v, &mut k);
            c::yarray_insert_range(b, txn, *i as u32, &cell, 1);
        }
        Op::AInsRange { i, vs, .. } => {
            let items: Vec<c::YInput> = vs.iter().map(|x| mk_any(x, &mut k)).collect();
            let n = items.len() as u32;
            let p = k.arr(items);
            c::yarray_insert_range(b, txn, *i as u32, p, n);
        }
        Op::AInsMixed { i, vs, .. } => {
            let items: Vec<c::YInput> = vs.iter().map(|x| mk_val(x, &mut k)).collect();
            let n = items.len() as u32;
            let p = k.arr(items);
            c::yarray_insert_range(b, txn, *i as u32, p, n);
        }
        Op::APush { v, .. } => {
            let cell = mk_val(v, &mut k);
            c::yarray_insert_range(b, txn, c::yarray_len(b), &cell, 1);
        }
        Op::APushFront { v, .. } => {
            let cell = mk_val(v, &mut k);
            c::yarray_insert_range(b, txn, 0, &cell, 1);
        }
        Op::ADel { i, n, .. } => c::yarray_remove_range(b, txn, *i as u32, *n as u32),
        Op::MSet { k: key, v, .. } => {
            let cell = mk_val(v, &mut k);
            c::ymap_insert(b, txn, k.s(key), &cell);
        }
        Op::MDel { k: key, .. } => {
            let existed = matches!(node_resolve(model, op.tgt()), Some(Node::Map(m)) if m.contains_key(key));
            let r = c::ymap_remove(b, txn, k.s(key));
            if (r == c::Y_TRUE) != existed {
                return Err(format!("VERDICT ymap_remove({:?}) returned {} but the key {}", key, r, if existed { "existed" } else { "did not exist" }));
            }
        }
        Op::MClear { .. } => c::ymap_remove_all(b, txn),
        Op::XIns { i, v, .. } => match v {
            Val::XmlElem(tag) => {
                let nb = c::yxmlelem_insert_elem(b, txn, *i as u32, k.s(tag));
                if nb.is_null() || c::ytype_kind(nb) != c::Y_XML_ELEM {
                    return Err("VERDICT yxmlelem_insert_elem did not return an element branch".into());
                }
            }
            Val::XmlText(s) => {
                let nb = c::yxmlelem_insert_text(b, txn, *i as u32);
                if nb.is_null() || c::ytype_kind(nb) != c::Y_XML_TEXT {
                    return Err("VERDICT yxmlelem_insert_text did not return a text branch".into());
                }
                if !s.is_empty() {
                    c::yxmltext_insert(nb, txn, 0, k.s(s), null());
                }
            }
            _ => return Err("bad xml value".into()),
        },
        Op::XDel { i, n, .. } => c::yxmlelem_remove_range(b, txn, *i as u32, *n as u32),
        Op::XAttr { k: key, v, .. } => {
            let cell = c::yinput_string(k.s(v));
            if xt {
                c::yxmltext_insert_attr(b, txn, k.s(key), &cell);
            } else {
                c::yxmlelem_insert_attr(b, txn, k.s(key), &cell);
            }
        }
        Op::XAttrDel { k: key, .. } => {
            if xt {
                c::yxmltext_remove_attr(b, txn, k.s(key));
            } else {
                c::yxmlelem_remove_attr(b, txn, k.s(key));
            }
        }
        Op::MTryUpdate { .. } | Op::MGetOrInit { .. } | Op::Quote { .. } | Op::Link { .. } => return Err("no C counterpart".into()),
    }
    Ok(())
}

pub fn has_c_counterpart(op: &Op) -> bool {
    !matches!(op, Op::MTryUpdate { .. } | Op::MGetOrInit { .. } | Op::Quote { .. } | Op::Link { .. })
}

// ---------------------------------------------------------------------------------------------
// reading D through the C getters only

unsafe fn cstr(p: *const c_char) -> String {
    CStr::from_ptr(p).to_str().expect("C API returned invalid UTF-8").to_string()
}

unsafe fn take_string(p: *mut c_char) -> Option<String> {
    if p.is_null() {
        return None;
    }
    let s = cstr(p);
    c::ystring_destroy(p);
    Some(s)
}

type R<T> = Result<T, String>;

unsafe fn out_any(o: *const c::YOutput) -> R<AnyV> {
    let tag = (*o).tag;
    let len = (*o).len as usize;
    Ok(match tag {
        c::Y_JSON_NULL => AnyV::Null,
        c::Y_JSON_UNDEF => AnyV::Undef,
        c::Y_JSON_BOOL => {
            let p = c::youtput_read_bool(o);
            if p.is_null() {
                return Err("youtput_read_bool NULL for a bool cell".into());
            }
            AnyV::Bool(*p != 0)
        }
        c::Y_JSON_NUM => {
            let p = c::youtput_read_float(o);
            if p.is_null() {
                return Err("youtput_read_float NULL for a float cell".into());
            }
            AnyV::Num((*p).to_bits())
        }
        c::Y_JSON_INT => {
            let p = c::youtput_read_long(o);
            if p.is_null() {
                return Err("youtput_read_long NULL for a long cell".into());
            }
            AnyV::Big(*p)
        }
        c::Y_JSON_STR => {
            let p = c::youtput_read_string(o);
            if p.is_null() {
                return Err("youtput_read_string NULL for a string cell".into());
            }
            let s = cstr(p);
            if s.len() != len {
                return Err(format!("string cell len {} but the string has {} bytes", len, s.len()));
            }
            AnyV::Str(s)
        }
        c::Y_JSON_BUF => {
            let p = c::youtput_read_binary(o);
            if p.is_null() {
                return Err("youtput_read_binary NULL for a binary cell".into());
            }
            AnyV::Buf(std::slice::from_raw_parts(p as *const u8, len).to_vec())
        }
        c::Y_JSON_ARR => {
            let p = c::youtput_read_json_array(o);
            if p.is_null() && len > 0 {
                return Err("youtput_read_json_array NULL".into());
            }
            let mut v = Vec::new();
            for i in 0..len {
                v.push(out_any(p.add(i))?);
            }
            AnyV::Arr(v)
        }
        c::Y_JSON_MAP => {
            let p = c::youtput_read_json_map(o);
            if p.is_null() && len > 0 {
                return Err("youtput_read_json_map NULL".into());
            }
            let mut m = BTreeMap::new();
            for i in 0..len {
                let e = &*p.add(i);
                if m.insert(cstr(e.key), out_any(e.value)?).is_some() {
                    return Err("duplicate key in a JSON map cell".into());
                }
            }
            AnyV::Map(m)
        }
        other => return Err(format!("cell tag {} where a JSON-like value is expected", other)),
    })
}

/// every typed reader must refuse a cell of another kind
unsafe fn readers_refuse(o: *const c::YOutput) -> R<()> {
    let tag = (*o).tag;
    let checks: [(i8, bool, &str); 13] = [
        (c::Y_JSON_BOOL, c::youtput_read_bool(o).is_null(), "bool"),
        (c::Y_JSON_NUM, c::youtput_read_float(o).is_null(), "float"),
        (c::Y_JSON_INT, c::youtput_read_long(o).is_null(), "long"),
        (c::Y_JSON_STR, c::youtput_read_string(o).is_null(), "string"),
        (c::Y_JSON_BUF, c::youtput_read_binary(o).is_null(), "binary"),
        (c::Y_JSON_ARR, c::youtput_read_json_array(o).is_null(), "json_array"),
        (c::Y_JSON_MAP, c::youtput_read_json_map(o).is_null(), "json_map"),
        (c::Y_ARRAY, c::youtput_read_yarray(o).is_null(), "yarray"),
        (c::Y_MAP, c::youtput_read_ymap(o).is_null(), "ymap"),
        (c::Y_TEXT, c::youtput_read_ytext(o).is_null(), "ytext"),
        (c::Y_XML_ELEM, c::youtput_read_yxmlelem(o).is_null(), "yxmlelem"),
        (c::Y_XML_TEXT, c::youtput_read_yxmltext(o).is_null(), "yxmltext"),
        (c::Y_DOC, c::youtput_read_ydoc(o).is_null(), "ydoc"),
    ];
    for (t, is_null, name) in checks {
        let empty_ok = (t == c::Y_JSON_ARR || t == c::Y_JSON_MAP || t == c::Y_JSON_BUF) && (*o).len == 0;
        if t == tag && is_null && !empty_ok {
            return Err(format!("youtput_read_{} returns NULL for a cell tagged {}", name, tag));
        }
        if t != tag && !is_null {
            return Err(format!("youtput_read_{} returns a value for a cell tagged {}", name, tag));
        }
    }
    Ok(())
}

unsafe fn out_node(o: *const c::YOutput, txn: *const c::Transaction, kind: OffsetKind) -> R<Node> {
    readers_refuse(o)?;
    match out_branch(o) {
        Some((b, k)) => c_dump(b, k, txn, kind),
        None => Ok(Node::Any(out_any(o)?)),
    }
}

unsafe fn c_units(b: *const c::Branch, txn: *const c::Transaction, kind: OffsetKind) -> R<Vec<Unit>> {
    let mut n = 0u32;
    let chunks = c::ytext_chunks(b, txn, &mut n);
    let mut units = Vec::new();
    let mut err = None;
    for i in 0..n as usize {
        let ch = &*chunks.add(i);
        let mut attrs = AttrsV::new();
        for j in 0..ch.fmt_len as usize {
            let e = &*ch.fmt.add(j);
            match out_any(e.value) {
                Ok(v) => {
                    attrs.insert(cstr(e.key), v);
                }
                Err(e) => err = Some(e),
            }
        }
        let data = &ch.data as *const c::YOutput;
        if (*data).tag == c::Y_JSON_STR {
            match out_any(data) {
                Ok(AnyV::Str(s)) => {
                    for c in s.chars() {
                        units.push(Unit { c: UnitC::Ch(c), attrs: attrs.clone() });
                    }
                }
                Ok(_) => {}
                Err(e) => err = Some(e),
            }
        } else {
            match out_node(data, txn, kind) {
                Ok(Node::Any(a)) => units.push(Unit { c: UnitC::Embed(a), attrs }),
                Ok(other) => units.push(Unit { c: UnitC::Node(Box::new(other)), attrs }),
                Err(e) => err = Some(e),
            }
        }
    }
    c::ychunks_destroy(chunks, n);
    match err {
        Some(e) => Err(e),
        None => Ok(units),
    }
}

unsafe fn c_children(b: *const c::Branch, txn: *const c::Transaction, kind: OffsetKind) -> R<Vec<Node>> {
    let n = c::yxmlelem_child_len(b, txn);
    let mut out = Vec::new();
    let mut ptrs = Vec::new();
    for i in 0..n {
        let o = c::yxmlelem_get(b, txn, i);
        if o.is_null() {
            return Err(format!("yxmlelem_get({}) NULL although child_len is {}", i, n));
        }
        let node = out_node(o, txn, kind);
        let (cb, _) = out_branch(o).ok_or("xml child cell is not a shared type")?;
        c::youtput_destroy(o as *mut c::YOutput);
        out.push(node?);
        ptrs.push(cb);
        if c::yxmlelem_parent(cb) != b as *mut c::Branch {
            return Err(format!("yxmlelem_parent of child {} is not the container", i));
        }
    }
    if !c::yxmlelem_get(b, txn, n).is_null() {
        return Err("yxmlelem_get(child_len) is not NULL".into());
    }
    // sibling chain
    let first = c::yxmlelem_first_child(b);
    match (first.is_null(), ptrs.first()) {
        (true, None) => {}
        (false, Some(p)) => {
            let fb = out_branch(first).map(|x| x.0);
            c::youtput_destroy(first);
            if fb != Some(*p) {
                return Err("yxmlelem_first_child is not child 0".into());
            }
        }
        _ => return Err("yxmlelem_first_child disagrees with child_len".into()),
    }
    for (i, p) in ptrs.iter().enumerate() {
        let nx = c::yxml_next_sibling(*p, txn);
        let want = ptrs.get(i + 1).copied();
        let got = if nx.is_null() { None } else { out_branch(nx).map(|x| x.0) };
        c::youtput_destroy(nx);
        if got != want {
            return Err(format!("yxml_next_sibling of child {} is wrong", i));
        }
        let pv = c::yxml_prev_sibling(*p, txn);
        let want = if i == 0 { None } else { Some(ptrs[i - 1]) };
        let got = if pv.is_null() { None } else { out_branch(pv).map(|x| x.0) };
        c::youtput_destroy(pv);
        if got != want {
            return Err(format!("yxml_prev_sibling of child {} is wrong", i));
        }
    }
    Ok(out)
}

unsafe fn c_xml_attrs(b: *const c::Branch, text: bool, txn: *const c::Transaction, kind: OffsetKind) -> R<BTreeMap<String, Node>> {
    let it = if text { c::yxmltext_attr_iter(b, txn) } else { c::yxmlelem_attr_iter(b, txn) };
    let mut out = BTreeMap::new();
    loop {
        let a = c::yxmlattr_iter_next(it);
        if a.is_null() {
            break;
        }
        let name = cstr((*a).name);
        let v = out_node((*a).value, txn, kind);
        c::yxmlattr_destroy(a);
        let v = v?;
        let key = CString::new(name.as_str()).unwrap();
        let g = if text { c::yxmltext_get_attr(b, txn, key.as_ptr()) } else { c::yxmlelem_get_attr(b, txn, key.as_ptr()) };
        if g.is_null() {
            return Err(format!("get_attr({:?}) NULL although the iterator yields it", name));
        }
        let gv = out_node(g, txn, kind);
        c::youtput_destroy(g);
        if gv? != v {
            return Err(format!("get_attr({:?}) differs from the iterator's value", name));
        }
        out.insert(name, v);
    }
    c::yxmlattr_iter_destroy(it);
    let absent = CString::new("zz-absent").unwrap();
    let g = if text { c::yxmltext_get_attr(b, txn, absent.as_ptr()) } else { c::yxmlelem_get_attr(b, txn, absent.as_ptr()) };
    if !g.is_null() {
        return Err("get_attr of an absent attribute is not NULL".into());
    }
    Ok(out)
}

/// the content of a shared type as seen through the C getters
unsafe fn c_dump(b: *const c::Branch, k: i8, txn: *const c::Transaction, kind: OffsetKind) -> R<Node> {
    if c::ytype_kind(b) != k {
        return Err(format!("ytype_kind {} for a branch reached as kind {}", c::ytype_kind(b), k));
    }
    Ok(match k {
        c::Y_TEXT => {
            let units = c_units(b, txn, kind)?;
            let s = take_string(c::ytext_string(b, txn)).ok_or("ytext_string NULL")?;
            if s != Node::text_string(&units) {
                return Err(format!("ytext_string {:?} but the chunks spell {:?}", s, Node::text_string(&units)));
            }
            let len = c::ytext_len(b, txn);
            if len != units_len(&units, kind) {
                return Err(format!("ytext_len {} but the chunks measure {}", len, units_len(&units, kind)));
            }
            Node::Text(units)
        }
        c::Y_ARRAY => {
            let n = c::yarray_len(b);
            let mut v = Vec::new();
            for i in 0..n {
                let o = c::yarray_get(b, txn, i);
                if o.is_null() {
                    return Err(format!("yarray_get({}) NULL although yarray_len is {}", i, n));
                }
                let node = out_node(o, txn, kind);
                c::youtput_destroy(o);
                v.push(node?);
            }
            if !c::yarray_get(b, txn, n).is_null() {
                return Err("yarray_get(len) is not NULL".into());
            }
            let it = c::yarray_iter(b, txn as *mut c::Transaction);
            let mut w = Vec::new();
            loop {
                let o = c::yarray_iter_next(it);
                if o.is_null() {
                    break;
                }
                let node = out_node(o, txn, kind);
                c::youtput_destroy(o);
                w.push(node?);
            }
            c::yarray_iter_destroy(it);
            if v != w {
                return Err(format!("yarray_iter yields {:?} but yarray_get yields {:?}", w, v));
            }
            Node::Array(v)
        }
        c::Y_MAP => {
            let it = c::ymap_iter(b, txn);
            let mut m = BTreeMap::new();
            loop {
                let e = c::ymap_iter_next(it);
                if e.is_null() {
                    break;
                }
                let key = cstr((*e).key);
                let node = out_node((*e).value, txn, kind);
                c::ymap_entry_destroy(e);
                let node = node?;
                let ck = CString::new(key.as_str()).unwrap();
                let g = c::ymap_get(b, txn, ck.as_ptr());
                if g.is_null() {
                    return Err(format!("ymap_get({:?}) NULL although ymap_iter yields the key", key));
                }
                let gn = out_node(g, txn, kind);
                c::youtput_destroy(g);
                if gn? != node {
                    return Err(format!("ymap_get({:?}) differs from the iterator's value", key));
                }
                if m.insert(key, node).is_some() {
                    return Err("ymap_iter yields a key twice".into());
                }
            }
            c::ymap_iter_destroy(it);
            if c::ymap_len(b, txn) as usize != m.len() {
                return Err(format!("ymap_len {} but ymap_iter yields {} entries", c::ymap_len(b, txn), m.len()));
            }
            let absent = CString::new("zz-absent").unwrap();
            if !c::ymap_get(b, txn, absent.as_ptr()).is_null() {
                return Err("ymap_get of an absent key is not NULL".into());
            }
            Node::Map(m)
        }
        c::Y_XML_FRAG => Node::XmlFragment(c_children(b, txn, kind)?),
        c::Y_XML_ELEM => {
            let tag = take_string(c::yxmlelem_tag(b)).ok_or("yxmlelem_tag NULL for an element")?;
            Node::XmlElement { tag, attrs: c_xml_attrs(b, false, txn, kind)?, children: c_children(b, txn, kind)? }
        }
        c::Y_XML_TEXT => {
            let units = c_units(b, txn, kind)?;
            let len = c::yxmltext_len(b, txn);
            if len != units_len(&units, kind) {
                return Err(format!("yxmltext_len {} but the chunks measure {}", len, units_len(&units, kind)));
            }
            Node::XmlText { attrs: c_xml_attrs(b, true, txn, kind)?, units }
        }
        other => return Err(format!("unexpected kind {}", other)),
    })
}

unsafe fn c_dump_all(d: &CDoc, txn: *const c::Transaction, kind: OffsetKind) -> R<Model> {
    let mut m = Model::new();
    for ch in ['t', 'a', 'm', 'x'] {
        let (b, k) = d.root(ch);
        m.insert(ch, c_dump(b, k, txn, kind).map_err(|e| format!("root '{}': {}", ch, e))?);
    }
    Ok(m)
}

unsafe fn take_bin(p: *mut c_char, len: u32) -> Option<Vec<u8>> {
    if p.is_null() {
        return None;
    }
    let v = std::slice::from_raw_parts(p as *const u8, len as usize).to_vec();
    c::ybinary_destroy(p, len);
    Some(v)
}

// ---------------------------------------------------------------------------------------------
// one program

fn show(m: &Model) -> String {
    m.iter().map(|(k, v)| format!("{}={}", k, v.show())).collect::<Vec<_>>().join(" ")
}

/// a JSON map with several keys is stored and written in hash order (differs from document to document)
fn multi_map(a: &AnyV) -> bool {
    match a {
        AnyV::Map(m) => m.len() > 1 || m.values().any(multi_map),
        AnyV::Arr(v) => v.iter().any(multi_map),
        _ => false,
    }
}

fn json_faithful(a: &AnyV) -> bool {
    match a {
        AnyV::Null | AnyV::Bool(_) | AnyV::Str(_) => true,
        AnyV::Num(b) => {
            let f = f64::from_bits(*b);
            f.is_finite() && !(f == 0.0 && f.is_sign_negative())
        }
        AnyV::Arr(v) => v.iter().all(json_faithful),
        AnyV::Map(m) => m.values().all(json_faithful),
        _ => false,
    }
}

// ---------------------------------------------------------------------------------------------
// observers: both sides render their events to the same canonical strings

thread_local! {
    static C_EVENTS: std::cell::RefCell<Vec<String>> = std::cell::RefCell::new(Vec::new());
    static C_ROOTS: std::cell::RefCell<[usize; 4]> = std::cell::RefCell::new([0; 4]);
}

unsafe fn render_cell(o: *const c::YOutput) -> String {
    if o.is_null() {
        return "NULL".into();
    }
    match out_branch(o) {
        Some((_, k)) => format!("type{}", k),
        None => match out_any(o) {
            Ok(a) => show_any(&a),
            Err(e) => format!("UNREADABLE({})", e),
        },
    }
}

fn render_out(o: &yrs::Out) -> String {
    match o {
        yrs::Out::Any(a) => show_any(&AnyV::from_any(a)),
        yrs::Out::YArray(_) => format!("type{}", c::Y_ARRAY),
        yrs::Out::YMap(_) => format!("type{}", c::Y_MAP),
        yrs::Out::YText(_) => format!("type{}", c::Y_TEXT),
        yrs::Out::YXmlElement(_) => format!("type{}", c::Y_XML_ELEM),
        yrs::Out::YXmlText(_) => format!("type{}", c::Y_XML_TEXT),
        _ => "type?".into(),
    }
}

fn render_attrs(a: &BTreeMap<String, String>) -> String {
    a.iter().map(|(k, v)| format!("{}={}", k, v)).collect::<Vec<_>>().join(",")
}

unsafe fn render_c_text_delta(d: *mut c::YDeltaOut, n: u32) -> String {
    let mut out = Vec::new();
    for i in 0..n as usize {
        let e = &*d.add(i);
        let mut attrs = BTreeMap::new();
        for j in 0..e.attributes_len as usize {
            let a = &*e.attributes.add(j);
            attrs.insert(cstr(a.key), render_cell(&a.value));
        }
        out.push(match e.tag {
            c::Y_EVENT_CHANGE_ADD => format!("ins({};{})", render_cell(e.insert), render_attrs(&attrs)),
            c::Y_EVENT_CHANGE_RETAIN => format!("ret({};{})", e.len, render_attrs(&attrs)),
            c::Y_EVENT_CHANGE_DELETE => format!("del({})", e.len),
            t => format!("tag{}", t),
        });
    }
    out.join(" ")
}

fn render_r_text_delta(d: &[yrs::types::Delta]) -> String {
    let ra = |a: &Option<Box<yrs::types::Attrs>>| {
        let m: BTreeMap<String, String> = a.as_ref().map(|a| a.iter().map(|(k, v)| (k.to_string(), show_any(&AnyV::from_any(v)))).collect()).unwrap_or_default();
        render_attrs(&m)
    };
    d.iter()
        .map(|e| match e {
            yrs::types::Delta::Inserted(v, a) => format!("ins({};{})", render_out(v), ra(a)),
            yrs::types::Delta::Retain(n, a) => format!("ret({};{})", n, ra(a)),
            yrs::types::Delta::Deleted(n) => format!("del({})", n),
        })
        .collect::<Vec<_>>()
        .join(" ")
}

unsafe fn render_c_changes(d: *mut c::YEventChange, n: u32) -> String {
    let mut out = Vec::new();
    for i in 0..n as usize {
        let e = &*d.add(i);
        out.push(match e.tag {
            c::Y_EVENT_CHANGE_ADD => {
                let vs: Vec<String> = (0..e.len as usize).map(|j| render_cell(e.values.add(j))).collect();
                format!("add[{}]", vs.join(","))
            }
            c::Y_EVENT_CHANGE_RETAIN => format!("ret({})", e.len),
            c::Y_EVENT_CHANGE_DELETE => format!("del({})", e.len),
            t => format!("tag{}", t),
        });
    }
    out.join(" ")
}

fn render_r_changes(d: &[yrs::types::Change]) -> String {
    d.iter()
        .map(|e| match e {
            yrs::types::Change::Added(vs) => format!("add[{}]", vs.iter().map(render_out).collect::<Vec<_>>().join(",")),
            yrs::types::Change::Retain(n) => format!("ret({})", n),
            yrs::types::Change::Removed(n) => format!("del({})", n),
        })
        .collect::<Vec<_>>()
        .join(" ")
}

unsafe fn render_c_keys(d: *mut c::YEventKeyChange, n: u32) -> String {
    let mut out = BTreeMap::new();
    for i in 0..n as usize {
        let e = &*d.add(i);
        let s = match e.tag {
            c::Y_EVENT_KEY_CHANGE_ADD => format!("add({})", render_cell(e.new_value)),
            c::Y_EVENT_KEY_CHANGE_UPDATE => format!("upd({}->{})", render_cell(e.old_value), render_cell(e.new_value)),
            c::Y_EVENT_KEY_CHANGE_DELETE => format!("del({})", render_cell(e.old_value)),
            t => format!("tag{}", t),
        };
        out.insert(cstr(e.key), s);
    }
    render_attrs(&out)
}

fn render_r_keys(d: &std::collections::HashMap<std::sync::Arc<str>, yrs::types::EntryChange>) -> String {
    let m: BTreeMap<String, String> = d
        .iter()
        .map(|(k, e)| {
            (
                k.to_string(),
                match e {
                    yrs::types::EntryChange::Inserted(n) => format!("add({})", render_out(n)),
                    yrs::types::EntryChange::Updated(o, n) => format!("upd({}->{})", render_out(o), render_out(n)),
                    yrs::types::EntryChange::Removed(o) => format!("del({})", render_out(o)),
                },
            )
        })
        .collect();
    render_attrs(&m)
}

fn c_log(s: String) {
    C_EVENTS.with(|l| l.borrow_mut().push(s));
}

fn c_root_is(i: usize, b: *mut c::Branch) -> &'static str {
    if C_ROOTS.with(|r| r.borrow()[i]) == b as usize {
        ""
    } else {
        " WRONG-TARGET"
    }
}

extern "C" fn cb_text(_: *mut std::ffi::c_void, e: *const c::YTextEvent) {
    unsafe {
        let mut n = 0u32;
        let d = c::ytext_event_delta(e, &mut n);
        let s = render_c_text_delta(d, n);
        c::ytext_delta_destroy(d, n);
        let mut pn = 0u32;
        let p = c::ytext_event_path(e, &mut pn);
        c::ypath_destroy(p, pn);
        c_log(format!("t: {} path{}{}", s, pn, c_root_is(0, c::ytext_event_target(e))));
    }
}

extern "C" fn cb_array(_: *mut std::ffi::c_void, e: *const c::YArrayEvent) {
    unsafe {
        let mut n = 0u32;
        let d = c::yarray_event_delta(e, &mut n);
        let s = render_c_changes(d, n);
        c::yevent_delta_destroy(d, n);
        let mut pn = 0u32;
        let p = c::yarray_event_path(e, &mut pn);
        c::ypath_destroy(p, pn);
        c_log(format!("a: {} path{}{}", s, pn, c_root_is(1, c::yarray_event_target(e))));
    }
}

extern "C" fn cb_map(_: *mut std::ffi::c_void, e: *const c::YMapEvent) {
    unsafe {
        let mut n = 0u32;
        let d = c::ymap_event_keys(e, &mut n);
        let s = render_c_keys(d, n);
        c::yevent_keys_destroy(d, n);
        let mut pn = 0u32;
        let p = c::ymap_event_path(e, &mut pn);
        c::ypath_destroy(p, pn);
        c_log(format!("m: {} path{}{}", s, pn, c_root_is(2, c::ymap_event_target(e))));
    }
}

extern "C" fn cb_xml(_: *mut std::ffi::c_void, e: *const c::YXmlEvent) {
    unsafe {
        let mut n = 0u32;
        let d = c::yxmlelem_event_delta(e, &mut n);
        let s = render_c_changes(d, n);
        c::yevent_delta_destroy(d, n);
        let mut kn = 0u32;
        let k = c::yxmlelem_event_keys(e, &mut kn);
        let ks = render_c_keys(k, kn);
        c::yevent_keys_destroy(k, kn);
        let mut pn = 0u32;
        let p = c::yxmlelem_event_path(e, &mut pn);
        c::ypath_destroy(p, pn);
        c_log(format!("x: {} keys[{}] path{}{}", s, ks, pn, c_root_is(3, c::yxmlelem_event_target(e))));
    }
}

unsafe fn render_c_path(p: *mut c::YPathSegment, n: u32) -> String {
    let mut out = Vec::new();
    for i in 0..n as usize {
        let s = &*p.add(i);
        out.push(match s.tag {
            c::Y_EVENT_PATH_KEY => format!("k:{}", cstr(s.value.key)),
            c::Y_EVENT_PATH_INDEX => format!("i:{}", s.value.index),
            t => format!("tag{}", t),
        });
    }
    out.join("/")
}

fn render_r_path(p: &yrs::types::Path) -> String {
    p.iter()
        .map(|s| match s {
            yrs::types::PathSegment::Key(k) => format!("k:{}", k),
            yrs::types::PathSegment::Index(i) => format!("i:{}", i),
        })
        .collect::<Vec<_>>()
        .join("/")
}

thread_local! {
    static C_DEEP: std::cell::RefCell<Vec<String>> = std::cell::RefCell::new(Vec::new());
    static C_UPDATES: std::cell::RefCell<Vec<(usize, Vec<u8>)>> = std::cell::RefCell::new(Vec::new());
}

extern "C" fn cb_update(state: *mut std::ffi::c_void, len: u32, bytes: *const c_char) {
    let v = unsafe { std::slice::from_raw_parts(bytes as *const u8, len as usize).to_vec() };
    C_UPDATES.with(|l| l.borrow_mut().push((state as usize, v)));
}

extern "C" fn cb_deep(_: *mut std::ffi::c_void, len: u32, events: *const c::YEvent) {
    unsafe {
        for i in 0..len as usize {
            let e = &*events.add(i);
            let s = match e.tag {
                c::Y_TEXT => {
                    let ev = &e.content.text as *const c::YTextEvent;
                    let (mut n, mut pn) = (0u32, 0u32);
                    let d = c::ytext_event_delta(ev, &mut n);
                    let r = render_c_text_delta(d, n);
                    c::ytext_delta_destroy(d, n);
                    let p = c::ytext_event_path(ev, &mut pn);
                    let ps = render_c_path(p, pn);
                    c::ypath_destroy(p, pn);
                    format!("text@{} {}", ps, r)
                }
                c::Y_ARRAY => {
                    let ev = &e.content.array as *const c::YArrayEvent;
                    let (mut n, mut pn) = (0u32, 0u32);
                    let d = c::yarray_event_delta(ev, &mut n);
                    let r = render_c_changes(d, n);
                    c::yevent_delta_destroy(d, n);
                    let p = c::yarray_event_path(ev, &mut pn);
                    let ps = render_c_path(p, pn);
                    c::ypath_destroy(p, pn);
                    format!("array@{} {}", ps, r)
                }
                c::Y_MAP => {
                    let ev = &e.content.map as *const c::YMapEvent;
                    let (mut n, mut pn) = (0u32, 0u32);
                    let d = c::ymap_event_keys(ev, &mut n);
                    let r = render_c_keys(d, n);
                    c::yevent_keys_destroy(d, n);
                    let p = c::ymap_event_path(ev, &mut pn);
                    let ps = render_c_path(p, pn);
                    c::ypath_destroy(p, pn);
                    format!("map@{} {}", ps, r)
                }
                c::Y_XML_ELEM | c::Y_XML_FRAG => {
                    let ev = &e.content.xml_elem as *const c::YXmlEvent;
                    let (mut n, mut kn, mut pn) = (0u32, 0u32, 0u32);
                    let d = c::yxmlelem_event_delta(ev, &mut n);
                    let r = render_c_changes(d, n);
                    c::yevent_delta_destroy(d, n);
                    let k = c::yxmlelem_event_keys(ev, &mut kn);
                    let ks = render_c_keys(k, kn);
                    c::yevent_keys_destroy(k, kn);
                    let p = c::yxmlelem_event_path(ev, &mut pn);
                    let ps = render_c_path(p, pn);
                    c::ypath_destroy(p, pn);
                    format!("xml@{} {} keys[{}]", ps, r, ks)
                }
                c::Y_XML_TEXT => {
                    let ev = &e.content.xml_text as *const c::YXmlTextEvent;
                    let (mut n, mut kn, mut pn) = (0u32, 0u32, 0u32);
                    let d = c::yxmltext_event_delta(ev, &mut n);
                    let r = render_c_text_delta(d, n);
                    c::ytext_delta_destroy(d, n);
                    let k = c::yxmltext_event_keys(ev, &mut kn);
                    let ks = render_c_keys(k, kn);
                    c::yevent_keys_destroy(k, kn);
                    let p = c::yxmltext_event_path(ev, &mut pn);
                    let ps = render_c_path(p, pn);
                    c::ypath_destroy(p, pn);
                    format!("xmltext@{} {} keys[{}]", ps, r, ks)
                }
                t => format!("event-tag{}", t),
            };
            C_DEEP.with(|l| l.borrow_mut().push(s));
        }
    }
}

fn render_r_event(txn: &yrs::TransactionMut, e: &yrs::types::Event) -> String {
    match e {
        yrs::types::Event::Text(e) => format!("text@{} {}", render_r_path(&e.path()), render_r_text_delta(e.delta(txn))),
        yrs::types::Event::Array(e) => format!("array@{} {}", render_r_path(&e.path()), render_r_changes(e.delta(txn))),
        yrs::types::Event::Map(e) => format!("map@{} {}", render_r_path(&e.path()), render_r_keys(e.keys(txn))),
        yrs::types::Event::XmlFragment(e) => format!("xml@{} {} keys[{}]", render_r_path(&e.path()), render_r_changes(e.delta(txn)), render_r_keys(e.keys(txn))),
        yrs::types::Event::XmlText(e) => format!("xmltext@{} {} keys[{}]", render_r_path(&e.path()), render_r_text_delta(e.delta(txn)), render_r_keys(e.keys(txn))),
        _ => "event-other".into(),
    }
}

struct Sticky {
    step: usize,
    root: char,
    index: u32,
    assoc: i8,
    c: *mut c::YStickyIndex,
    r: StickyIndex,
}

/// Runs the case; Err((class, msg)) is a verdict, Err(("harness", ..)) a machinery problem.
unsafe fn run_pair(ctx: &mut Ctx, case: &Case) -> Result<Model, (String, String)> {
    let kind = if case.utf16 { OffsetKind::Utf16 } else { OffsetKind::Bytes };
    let v = |class: &str, msg: String| (class.to_string(), msg);
    let d = CDoc::new(1, case.utf16, case.gc);
    let t = twin_doc(1, case.utf16, case.gc);
    let roots_t = Roots::new(&t);
    let roots_d = Roots::new(d.native());
    let mut model = empty_model();
    // observers on the four roots, on both sides
    C_EVENTS.with(|l| l.borrow_mut().clear());
    C_ROOTS.with(|r| *r.borrow_mut() = [d.roots[0].0 as usize, d.roots[1].0 as usize, d.roots[2].0 as usize, d.roots[3].0 as usize]);
    let c_subs = [
        c::ytext_observe(d.roots[0].0, null_mut(), cb_text),
        c::yarray_observe(d.roots[1].0, null_mut(), cb_array),
        c::ymap_observe(d.roots[2].0, null_mut(), cb_map),
        c::yxmlelem_observe(d.roots[3].0, null_mut(), cb_xml),
    ];
    C_DEEP.with(|l| l.borrow_mut().clear());
    C_UPDATES.with(|l| l.borrow_mut().clear());
    let c_subs2 = [
        c::yobserve_deep(d.roots[1].0, null_mut(), cb_deep),
        c::yobserve_deep(d.roots[2].0, null_mut(), cb_deep),
        c::yobserve_deep(d.roots[3].0, null_mut(), cb_deep),
        c::ydoc_observe_updates_v1(d.doc, 1 as *mut std::ffi::c_void, cb_update),
        c::ydoc_observe_updates_v2(d.doc, 2 as *mut std::ffi::c_void, cb_update),
    ];
    let r_deep: std::sync::Arc<std::sync::Mutex<Vec<String>>> = Default::default();
    let r_updates: std::rc::Rc<std::cell::RefCell<Vec<(usize, Vec<u8>)>>> = Default::default();
    let _r_subs2 = {
        use yrs::DeepObservable;
        let (l1, l2, l3, u1, u2) = (r_deep.clone(), r_deep.clone(), r_deep.clone(), r_updates.clone(), r_updates.clone());
        (
            roots_t.a.observe_deep(move |txn, es| l1.lock().unwrap().extend(es.iter().map(|e| render_r_event(txn, e)))),
            roots_t.m.observe_deep(move |txn, es| l2.lock().unwrap().extend(es.iter().map(|e| render_r_event(txn, e)))),
            roots_t.x.observe_deep(move |txn, es| l3.lock().unwrap().extend(es.iter().map(|e| render_r_event(txn, e)))),
            t.observe_update_v1(move |_, e| u1.borrow_mut().push((1, e.update.clone()))).unwrap(),
            t.observe_update_v2(move |_, e| u2.borrow_mut().push((2, e.update.clone()))).unwrap(),
        )
    };
    let r_events: std::rc::Rc<std::cell::RefCell<Vec<String>>> = Default::default();
    let _r_subs = {
        use yrs::Observable;
        let (l0, l1, l2, l3) = (r_events.clone(), r_events.clone(), r_events.clone(), r_events.clone());
        (
            roots_t.t.observe(move |txn, e| l0.borrow_mut().push(format!("t: {} path{}", render_r_text_delta(e.delta(txn)), e.path().len()))),
            roots_t.a.observe(move |txn, e| l1.borrow_mut().push(format!("a: {} path{}", render_r_changes(e.delta(txn)), e.path().len()))),
            roots_t.m.observe(move |txn, e| l2.borrow_mut().push(format!("m: {} path{}", render_r_keys(e.keys(txn)), e.path().len()))),
            roots_t.x.observe(move |txn, e| l3.borrow_mut().push(format!("x: {} keys[{}] path{}", render_r_changes(e.delta(txn)), render_r_keys(e.keys(txn)), e.path().len()))),
        )
    };
    // undo managers on the family's root
    let scope = match case.fam {
        Fam::Arr | Fam::Nest => 'a',
        Fam::Map => 'm',
        Fam::Xml => 'x',
        _ => 't',
    };
    let mut um_c: *mut c::YUndoManager = null_mut();
    let mut um_t: Option<UndoManager> = None;
    if case.undo {
        let o = c::YUndoManagerOptions { capture_timeout_millis: 0 };
        um_c = c::yundo_manager(&o);
        let (b, _) = d.root(scope);
        c::yundo_manager_add_scope(um_c, d.doc, b);
        let mut ro = yrs::undo::Options::default();
        ro.capture_timeout_millis = 0;
        let mut um = UndoManager::with_options(ro);
        match scope {
            'a' => um.expand_scope(&t, &roots_t.a),
            'm' => um.expand_scope(&t, &roots_t.m),
            'x' => um.expand_scope(&t, &roots_t.x),
            _ => um.expand_scope(&t, &roots_t.t),
        }
        if case.origins != 0 {
            c::yundo_manager_add_origin(um_c, 2, b"o1".as_ptr() as *const c_char);
            um.include_origin("o1");
        }
        um_t = Some(um);
    }
    // a shared map initialised with several entries is filled in hash order by the Rust prelim:
    // the twin's ids are then not comparable byte by byte (content still is)
    let ordered = !case.prog.iter().any(|(op, _)| match op {
        Op::AIns { v, .. } | Op::MSet { v, .. } | Op::APush { v, .. } | Op::APushFront { v, .. } => match v {
            Val::Map(kv) => kv.len() > 1 || kv.iter().any(|(_, a)| multi_map(a)),
            Val::Array(a) => a.iter().any(multi_map),
            Val::Any(a) => multi_map(a),
            _ => false,
        },
        Op::AInsRange { vs, .. } => vs.iter().any(multi_map),
        Op::AInsMixed { vs, .. } => vs.iter().any(|v| match v {
            Val::Map(kv) => kv.len() > 1 || kv.iter().any(|(_, a)| multi_map(a)),
            Val::Array(a) => a.iter().any(multi_map),
            Val::Any(a) => multi_map(a),
            _ => false,
        }),
        Op::TEmbed { v, .. } => multi_map(v),
        _ => false,
    });
    // formatting with two attribute keys in play creates its boundary marks in hash order
    let attr_keys: std::collections::BTreeSet<&String> = case
        .prog
        .iter()
        .flat_map(|(op, _)| -> Vec<&String> {
            match op {
                Op::TInsA { attrs, .. } | Op::TFmt { attrs, .. } => attrs.keys().collect(),
                Op::TEmbed { attrs: Some(a), .. } => a.keys().collect(),
                Op::TDelta { d, .. } => d
                    .iter()
                    .flat_map(|x| match x {
                        DOp::Retain(_, Some(a)) | DOp::Ins(_, Some(a)) => a.keys().collect::<Vec<_>>(),
                        _ => Vec::new(),
                    })
                    .collect(),
                _ => Vec::new(),
            }
        })
        .collect();
    let single_attr_key = attr_keys.len() <= 1;
    let ordered = ordered && single_attr_key;
    let mut svs: Vec<Vec<u8>> = vec![StateVector::default().encode_v1()];
    let mut snaps: Vec<Vec<u8>> = Vec::new();
    let mut stickies: Vec<Sticky> = Vec::new();
    let mut ctxn: *mut c::Transaction = null_mut();
    let mut ttxn = None;

    // comparison after a commit, shared by the program steps and the undo / redo tail
    let after_commit = |ctx: &mut Ctx, step: usize, what: &str, bytes: bool, svs: &mut Vec<Vec<u8>>, snaps: &mut Vec<Vec<u8>>, stickies: &mut Vec<Sticky>| -> Result<Model, (String, String)> {
        let dt = t.transact();
        let want = roots_t.dump_all(&dt);
        let rt = c::ydoc_read_transaction(d.doc);
        if rt.is_null() {
            return Err(v("read-transaction-refused", format!("step {} {}: ydoc_read_transaction NULL with no transaction open", step, what)));
        }
        if c::ytransaction_writeable(rt) != 0 {
            return Err(v("transaction-kind", "a read transaction reports writeable".into()));
        }
        let got = c_dump_all(&d, rt, kind).map_err(|e| v("c-read-inconsistent", format!("step {} {}: {}", step, what, e)));
        let got = match got {
            Ok(g) => g,
            Err(e) => {
                c::ytransaction_commit(rt);
                return Err(e);
            }
        };
        let mut res: Result<(), (String, String)> = Ok(());
        if got != want {
            res = Err(v("c-read-differs", format!("step {} {}: C getters show {} but the twin holds {}", step, what, show(&got), show(&want))));
        }
        // json getters
        if res.is_ok() {
            use yrs::types::ToJson;
            use yrs::{Array, Map};
            let (ab, _) = d.root('a');
            for i in 0..c::yarray_len(ab) {
                let j = take_string(c::yarray_get_json(ab, rt, i));
                let w = roots_t.a.get(&dt, i).map(|o| serde_json::to_string(&o.to_json(&dt)).unwrap_or_default());
                // maps inside the value are written in hash order: compare as values
                let same = match (&j, &w) {
                    (Some(a), Some(b)) => serde_json::from_str::<Value>(a).ok() == serde_json::from_str::<Value>(b).ok(),
                    (None, None) => true,
                    _ => false,
                };
                if !same {
                    res = Err(v("get-json-differs", format!("step {} {}: yarray_get_json({}) = {:?}, Rust to_json = {:?}", step, what, i, j, w)));
                }
            }
            let (mb, _) = d.root('m');
            if let Some(Node::Map(m)) = want.get(&'m') {
                for key in m.keys() {
                    let ck = CString::new(key.as_str()).unwrap();
                    let j = take_string(c::ymap_get_json(mb, rt, ck.as_ptr()));
                    let w = roots_t.m.get(&dt, key).map(|o| serde_json::to_string(&o.to_json(&dt)).unwrap_or_default());
                    let same = match (&j, &w) {
                        (Some(a), Some(b)) => serde_json::from_str::<Value>(a).ok() == serde_json::from_str::<Value>(b).ok(),
                        (None, None) => true,
                        _ => false,
                    };
                    if !same {
                        res = Err(v("get-json-differs", format!("step {} {}: ymap_get_json({:?}) = {:?}, Rust to_json = {:?}", step, what, key, j, w)));
                    }
                }
            }
        }
        // encoded state
        if res.is_ok() {
            let mut n = 0u32;
            let sv = take_bin(c::ytransaction_state_vector_v1(rt, &mut n), n);
            if bytes && sv.as_deref() != Some(dt.state_vector().encode_v1().as_slice()) {
                res = Err(v("state-vector-differs", format!("step {} {}: ytransaction_state_vector_v1 {:?} vs {:?}", step, what, sv, dt.state_vector().encode_v1())));
            }
            let mut all: Vec<Option<&Vec<u8>>> = vec![None];
            all.extend(svs.iter().map(Some));
            if !bytes {
                all.clear();
            }
            for s in all {
                let (p, l) = match s {
                    Some(s) => (s.as_ptr() as *const c_char, s.len() as u32),
                    None => (null(), 0),
                };
                let rsv = match s {
                    Some(s) => StateVector::decode_v1(s).unwrap(),
                    None => StateVector::default(),
                };
                let mut n = 0u32;
                let d1 = take_bin(c::ytransaction_state_diff_v1(rt, p, l, &mut n), n);
                if d1.as_deref() != Some(dt.encode_diff_v1(&rsv).as_slice()) {
                    res = Err(v("state-diff-differs", format!("step {} {}: ytransaction_state_diff_v1(sv {:?}) = {:?}, Rust encode_diff_v1 = {:?}", step, what, s, d1, dt.encode_diff_v1(&rsv))));
                }
                let mut n = 0u32;
                let d2 = take_bin(c::ytransaction_state_diff_v2(rt, p, l, &mut n), n);
                if d2.as_deref() != Some(dt.encode_diff_v2(&rsv).as_slice()) {
                    res = Err(v("state-diff-differs", format!("step {} {}: ytransaction_state_diff_v2(sv {:?}) = {:?}, Rust encode_diff_v2 = {:?}", step, what, s, d2, dt.encode_diff_v2(&rsv))));
                }
            }
            let mut n = 0u32;
            let snap = take_bin(c::ytransaction_snapshot(rt, &mut n), n);
            let want_snap = dt.snapshot().encode_v1();
            // (the delete set of a snapshot is written per client in map order: one client here)
            if bytes && snap.as_deref() != Some(want_snap.as_slice()) {
                res = Err(v("snapshot-differs", format!("step {} {}: ytransaction_snapshot {:?} vs {:?}", step, what, snap, want_snap)));
            }
            if !case.gc && bytes {
                for s in snaps.iter() {
                    let rs = yrs::Snapshot::decode_v1(s).unwrap();
                    let mut e1 = yrs::updates::encoder::EncoderV1::new();
                    let w1 = dt.encode_state_from_snapshot(&rs, &mut e1).ok().map(|_| {
                        use yrs::updates::encoder::Encoder;
                        e1.to_vec()
                    });
                    let mut n = 0u32;
                    let g1 = take_bin(c::ytransaction_encode_state_from_snapshot_v1(rt, s.as_ptr() as *const c_char, s.len() as u32, &mut n), n);
                    if g1 != w1 {
                        res = Err(v("snapshot-state-differs", format!("step {} {}: encode_state_from_snapshot_v1 {:?} vs {:?}", step, what, g1, w1)));
                    }
                    let mut e2 = yrs::updates::encoder::EncoderV2::new();
                    let w2 = dt.encode_state_from_snapshot(&rs, &mut e2).ok().map(|_| {
                        use yrs::updates::encoder::Encoder;
                        e2.to_vec()
                    });
                    let mut n = 0u32;
                    let g2 = take_bin(c::ytransaction_encode_state_from_snapshot_v2(rt, s.as_ptr() as *const c_char, s.len() as u32, &mut n), n);
                    if g2 != w2 {
                        res = Err(v("snapshot-state-differs", format!("step {} {}: encode_state_from_snapshot_v2 {:?} vs {:?}", step, what, g2, w2)));
                    }
                }
                snaps.push(want_snap);
            }
            svs.push(dt.state_vector().encode_v1());
        }
        // sticky indexes made earlier still resolve alike
        if res.is_ok() && bytes {
            for s in stickies.iter() {
                let mut ob: *mut c::Branch = null_mut();
                let mut oi: u32 = u32::MAX;
                c::ysticky_index_read(s.c, rt, &mut ob, &mut oi);
                let w = s.r.get_offset(&dt).map(|o| o.index);
                let g = if ob.is_null() { None } else { Some(oi) };
                if g != w {
                    res = Err(v("sticky-index-read-differs", format!("step {} {}: index made at step {} on '{}' at {} assoc {} reads {:?} through C, {:?} in Rust", step, what, s.step, s.root, s.index, s.assoc, g, w)));
                }
                if let Some(_) = g {
                    let (rb, _) = d.root(s.root);
                    if ob != rb {
                        res = Err(v("sticky-index-read-differs", format!("step {} {}: ysticky_index_read returns another branch", step, what)));
                    }
                }
            }
        }
        c::ytransaction_commit(rt);
        drop(dt);
        res?;
        // internal stores
        let sd = {
            let tx = d.native().transact();
            yrs::verif::store_dump(tx.store())
        };
        let st = {
            let tx = t.transact();
            yrs::verif::store_dump(tx.store())
        };
        if bytes && sd != st {
            return Err(v("internal-store-differs", format!("step {} {}: D {} vs T {}", step, what, crate::world::show_store(&sd), crate::world::show_store(&st))));
        }
        // the native view of D (D is a yrs::Doc) agrees as well
        let nd = {
            let tx = d.native().transact();
            roots_d.dump_all(&tx)
        };
        if nd != want {
            return Err(v("native-view-of-c-document-differs", format!("step {} {}: {} vs {}", step, what, show(&nd), show(&want))));
        }
        ctx.count("transitions", 1);
        Ok(want)
    };

    for (step, (op, commit)) in case.prog.iter().enumerate() {
        if ctxn.is_null() {
            let with_origin = case.origins & (1 << step) != 0;
            ctxn = if with_origin { c::ydoc_write_transaction(d.doc, 2, b"o1".as_ptr() as *const c_char) } else { c::ydoc_write_transaction(d.doc, 0, null()) };
            if ctxn.is_null() {
                return Err(v("write-transaction-refused", format!("step {}: ydoc_write_transaction NULL with no transaction open", step)));
            }
            if c::ytransaction_writeable(ctxn) != 1 {
                return Err(v("transaction-kind", "a write transaction reports read-only".into()));
            }
            ttxn = Some(if with_origin { t.transact_mut_with("o1") } else { t.transact_mut() });
        }
        let tt = ttxn.as_mut().unwrap();
        apply_real(&roots_t, tt, kind, op).map_err(|e| ("harness".to_string(), format!("twin refuses {:?}: {}", op, e)))?;
        match apply_c(&d, ctxn, kind, &model, op) {
            Ok(()) => {}
            Err(e) if e.starts_with("VERDICT ") => return Err(v("c-call-result", format!("step {}: {}", step, &e[8..]))),
            Err(e) => return Err(v("c-target-unresolvable", format!("step {}: {:?}: {}", step, op, e))),
        }
        apply_model(&mut model, op).map_err(|e| ("harness".to_string(), format!("model rejects {:?}: {}", op, e)))?;
        ctx.count("transitions", 1);
        // inside the open transaction: C getters vs the twin's dump
        let want = roots_t.dump_all(&*tt);
        let got = c_dump_all(&d, ctxn, kind).map_err(|e| v("c-read-inconsistent", format!("step {} in-txn: {}", step, e)))?;
        if got != want {
            return Err(v("c-read-differs", format!("step {} in-txn after {:?}: C getters show {} but the twin holds {}", step, op, show(&got), show(&want))));
        }
        if *commit {
            c::ytransaction_commit(ctxn);
            ctxn = null_mut();
            ttxn = None;
            {
                let mut ce: Vec<String> = C_EVENTS.with(|l| l.borrow_mut().drain(..).collect());
                let mut re: Vec<String> = r_events.borrow_mut().drain(..).collect();
                ce.sort();
                re.sort();
                // (with two attribute keys in play the marks a call creates depend on hash order: so do events)
                if ordered && ce != re {
                    return Err(v("observer-events-differ", format!("step {}: C callbacks saw {:?}, Rust observers {:?}", step, ce, re)));
                }
                if !ce.is_empty() {
                    ctx.count("transactions_with_events_compared", 1);
                }
                let mut cd: Vec<String> = C_DEEP.with(|l| l.borrow_mut().drain(..).collect());
                let mut rd: Vec<String> = r_deep.lock().unwrap().drain(..).collect();
                cd.sort();
                rd.sort();
                if ordered && cd != rd {
                    return Err(v("deep-observer-events-differ", format!("step {}: C callback saw {:?}, Rust observer {:?}", step, cd, rd)));
                }
                let mut cu: Vec<(usize, Vec<u8>)> = C_UPDATES.with(|l| l.borrow_mut().drain(..).collect());
                let mut ru: Vec<(usize, Vec<u8>)> = r_updates.borrow_mut().drain(..).collect();
                cu.sort();
                ru.sort();
                if ordered && cu != ru {
                    return Err(v("update-observer-payloads-differ", format!("step {}: C callbacks got {:?}, Rust observers {:?}", step, cu, ru)));
                }
            }
            let cur = after_commit(ctx, step, "after-commit", ordered, &mut svs, &mut snaps, &mut stickies)?;
            // new sticky indexes at every index of the family's sequence root
            if ordered && matches!(scope, 't' | 'a') && stickies.len() < 64 {
                let len = match cur.get(&scope) {
                    Some(Node::Text(u)) => units_len(u, kind),
                    Some(Node::Array(a)) => a.len() as u32,
                    _ => 0,
                };
                let (rb, _) = d.root(scope);
                let wt = c::ydoc_write_transaction(d.doc, 0, null());
                let mut tw = t.transact_mut();
                let offsets: Vec<u32> = match cur.get(&scope) {
                    Some(Node::Text(u)) => (0..=u.len()).map(|i| unit_offset(u, i, kind)).collect(),
                    _ => (0..=len).collect(),
                };
                for index in offsets {
                    for assoc in [0i8, -1] {
                        let cs = c::ysticky_index_from_index(rb, wt, index, assoc);
                        let ra = if assoc >= 0 { Assoc::After } else { Assoc::Before };
                        let rs = match scope {
                            't' => StickyIndex::at(&mut tw, yrs::branch::BranchPtr::from(roots_t.t.as_ref() as &yrs::branch::Branch), index, ra),
                            _ => StickyIndex::at(&mut tw, yrs::branch::BranchPtr::from(roots_t.a.as_ref() as &yrs::branch::Branch), index, ra),
                        };
                        match (cs.is_null(), rs) {
                            (true, None) => {}
                            (false, Some(rs)) => {
                                let mut n = 0u32;
                                let enc = take_bin(c::ysticky_index_encode(cs, &mut n), n);
                                if enc.as_deref() != Some(rs.encode_v1().as_slice()) {
                                    return Err(v("sticky-index-differs", format!("step {}: ysticky_index_from_index('{}', {}, {}) encodes {:?}, Rust {:?}", step, scope, index, assoc, enc, rs.encode_v1())));
                                }
                                if c::ysticky_index_assoc(cs) != assoc {
                                    return Err(v("sticky-index-differs", format!("ysticky_index_assoc {} for an index made with {}", c::ysticky_index_assoc(cs), assoc)));
                                }
                                let js = take_string(c::ysticky_index_to_json(cs));
                                if js.as_deref() != serde_json::to_string(&rs).ok().as_deref() {
                                    return Err(v("sticky-index-differs", format!("ysticky_index_to_json {:?} vs {:?}", js, serde_json::to_string(&rs).ok())));
                                }
                                // binary and JSON round trips through C
                                if let Some(e) = &enc {
                                    let back = c::ysticky_index_decode(e.as_ptr() as *const c_char, e.len() as u32);
                                    let mut n = 0u32;
                                    let again = if back.is_null() { None } else { take_bin(c::ysticky_index_encode(back, &mut n), n) };
                                    if !back.is_null() {
                                        c::ysticky_index_destroy(back);
                                    }
                                    if again.as_ref() != Some(e) {
                                        return Err(v("sticky-index-differs", format!("ysticky_index_decode/encode round trip {:?} -> {:?}", e, again)));
                                    }
                                }
                                if let Some(j) = &js {
                                    let cj = CString::new(j.as_str()).unwrap();
                                    let back = c::ysticky_index_from_json(cj.as_ptr());
                                    let mut n = 0u32;
                                    let again = if back.is_null() { None } else { take_bin(c::ysticky_index_encode(back, &mut n), n) };
                                    if !back.is_null() {
                                        c::ysticky_index_destroy(back);
                                    }
                                    if again != enc {
                                        return Err(v("sticky-index-differs", format!("ysticky_index_from_json round trip {:?} -> {:?}", enc, again)));
                                    }
                                }
                                stickies.push(Sticky { step, root: scope, index, assoc, c: cs, r: rs });
                            }
                            (cn, rs) => {
                                return Err(v("sticky-index-differs", format!("step {}: ysticky_index_from_index('{}', {}, {}) {} but Rust gives {:?}", step, scope, index, assoc, if cn { "is NULL" } else { "is not NULL" }, rs.map(|r| r.encode_v1()))));
                            }
                        }
                    }
                }
                drop(tw);
                c::ytransaction_commit(wt);
            }
        }
    }
    if !ctxn.is_null() {
        c::ytransaction_commit(ctxn);
        drop(ttxn.take());
    }
    let fin = after_commit(ctx, case.prog.len(), "at-end", ordered, &mut svs, &mut snaps, &mut stickies)?;

    // exchange with replicas of the other kind
    {
        let rt = c::ydoc_read_transaction(d.doc);
        let mut n = 0u32;
        let diff = take_bin(c::ytransaction_state_diff_v1(rt, null(), 0, &mut n), n).unwrap_or_default();
        c::ytransaction_commit(rt);
        let r = twin_doc(2, case.utf16, case.gc);
        let rr = Roots::new(&r);
        {
            let mut tx = r.transact_mut();
            let u = Update::decode_v1(&diff).map_err(|e| v("c-update-does-not-decode", e.to_string()))?;
            tx.apply_update(u).map_err(|e| v("c-update-does-not-apply", e.to_string()))?;
        }
        let got = rr.dump_all(&r.transact());
        if got != fin {
            return Err(v("rust-replica-fed-by-c-differs", format!("{} vs {}", show(&got), show(&fin))));
        }
        for v2 in [false, true] {
            let e = CDoc::new(3, case.utf16, case.gc);
            let up = {
                let tx = t.transact();
                if v2 {
                    tx.encode_state_as_update_v2(&StateVector::default())
                } else {
                    tx.encode_state_as_update_v1(&StateVector::default())
                }
            };
            let wt = c::ydoc_write_transaction(e.doc, 0, null());
            let code = if v2 {
                c::ytransaction_apply_v2(wt, up.as_ptr() as *const c_char, up.len() as u32)
            } else {
                c::ytransaction_apply(wt, up.as_ptr() as *const c_char, up.len() as u32)
            };
            c::ytransaction_commit(wt);
            if code != 0 {
                return Err(v("c-apply-refuses-rust-update", format!("ytransaction_apply{} returned {}", if v2 { "_v2" } else { "" }, code)));
            }
            let rt = c::ydoc_read_transaction(e.doc);
            let got = c_dump_all(&e, rt, kind);
            c::ytransaction_commit(rt);
            let got = got.map_err(|er| v("c-read-inconsistent", format!("replica fed by Rust: {}", er)))?;
            if got != fin {
                return Err(v("c-replica-fed-by-rust-differs", format!("{} vs {}", show(&got), show(&fin))));
            }
        }
    }

    // undo everything, then redo everything, step by step on both sides
    // (with two attribute keys in play a call may or may not leave a redundant mark, i.e. a stack item, depending on hash order)
    if let Some(um) = um_t.as_mut().filter(|_| single_attr_key) {
        for phase in ["undo", "redo"] {
            for round in 0..(case.prog.len() + 1) {
                let (lc, lr) = if phase == "undo" {
                    (c::yundo_manager_undo_stack_len(um_c) as usize, um.undo_stack().len())
                } else {
                    (c::yundo_manager_redo_stack_len(um_c) as usize, um.redo_stack().len())
                };
                if lc != lr {
                    return Err(v("undo-stack-differs", format!("{} round {}: stack length {} through C, {} in Rust", phase, round, lc, lr)));
                }
                let rc = if phase == "undo" { c::yundo_manager_undo(um_c) } else { c::yundo_manager_redo(um_c) };
                let rr = if phase == "undo" { um.undo_blocking() } else { um.redo_blocking() };
                if (rc == c::Y_TRUE) != rr {
                    return Err(v("undo-result-differs", format!("{} round {}: C returns {}, Rust {}", phase, round, rc, rr)));
                }
                after_commit(ctx, case.prog.len(), &format!("{} {}", phase, round), false, &mut svs, &mut snaps, &mut stickies)?;
                if !rr {
                    break;
                }
            }
        }
    }
    for s in c_subs {
        c::yunobserve(s);
    }
    for s in c_subs2 {
        c::yunobserve(s);
    }
    for s in stickies.drain(..) {
        c::ysticky_index_destroy(s.c);
    }
    if !um_c.is_null() {
        c::yundo_manager_destroy(um_c);
    }
    Ok(fin)
}

pub fn run_case(ctx: &mut Ctx, case: &Case, cj: &dyn Fn() -> Value) {
    match unsafe { run_pair(ctx, case) } {
        Ok(fin) => {
            ctx.state(hash_of(&(case.utf16, case.gc, case.undo, case.origins, &fin, case.prog.len())));
            ctx.outcome(hash_of(&fin));
        }
        Err((class, msg)) if class == "harness" => ctx.machinery_error(format!("{} on {}", msg, cj())),
        Err((class, msg)) => ctx.violation("c-vs-rust", &class, msg, cj()),
    }
}

// ---------------------------------------------------------------------------------------------
// enumeration

fn bounds(tier: Tier) -> Vec<(Fam, usize, u8, bool)> {
    // (family, calls, alphabet level, with every input cell kind)
    match tier {
        Tier::Quick => vec![
            (Fam::Txt, 3, 1, false),
            (Fam::Rtx, 3, 1, false),
            (Fam::Rtx, 2, 2, true),
            // shared types embedded in a text through ytext_insert_embed, deletion ranges over them
            (Fam::Rtx, 3, 4, false),
            (Fam::Uni, 3, 0, false),
            (Fam::Arr, 3, 1, false),
            (Fam::Arr, 2, 0, true),
            (Fam::Map, 3, 2, false),
            (Fam::Map, 2, 0, true),
            (Fam::Xml, 3, 1, false),
            (Fam::Nest, 3, 0, false),
        ],
        Tier::Thorough => vec![
            (Fam::Txt, 5, 1, false),
            (Fam::Rtx, 4, 2, false),
            (Fam::Rtx, 3, 1, true),
            (Fam::Rtx, 4, 4, false),
            (Fam::Uni, 4, 1, false),
            (Fam::Arr, 4, 2, false),
            (Fam::Arr, 3, 0, true),
            (Fam::Map, 4, 2, false),
            (Fam::Map, 3, 0, true),
            (Fam::Xml, 4, 1, false),
            (Fam::Nest, 4, 1, false),
        ],
    }
}

fn alphabet(fam: Fam, level: u8, with_cells: bool, model: &Model, k: usize) -> Vec<Op> {
    let mut ops: Vec<Op> = gen_ops(fam, model, k, level).into_iter().filter(has_c_counterpart).collect();
    if with_cells {
        for v in cells() {
            match fam {
                Fam::Arr => {
                    let n = match model.get(&'a') {
                        Some(Node::Array(a)) => a.len(),
                        _ => 0,
                    };
                    ops.push(Op::AIns { t: Tgt::root('a'), i: n / 2, v: v.clone() });
                }
                Fam::Map => ops.push(Op::MSet { t: Tgt::root('m'), k: "k1".into(), v: v.clone() }),
                _ => {}
            }
        }
        // every JSON-like cell kind as embedded content, with and without attributes
        if fam == Fam::Rtx {
            let n = match model.get(&'t') {
                Some(Node::Text(u)) => u.len(),
                _ => 0,
            };
            let mut embeds = cells();
            embeds.push(Val::Any(AnyV::Arr(vec![AnyV::Null, AnyV::s("\u{e9}"), AnyV::Arr(vec![AnyV::num(1.5)]), AnyV::Map([("k".to_string(), AnyV::Bool(true))].into_iter().collect())])));
            embeds.push(Val::Any(AnyV::Map([("\u{e9}\u{1f600}".to_string(), AnyV::Map([("x".to_string(), AnyV::Arr(vec![AnyV::Bool(false)]))].into_iter().collect()))].into_iter().collect())));
            for (ci, v) in embeds.into_iter().enumerate() {
                if let Val::Any(a) = v {
                    // (a string embed reads back as text: not an embed; embedded content travels as JSON,
                    // so only JSON-faithful values keep their identity across replicas)
                    if matches!(a, AnyV::Str(_)) || !json_faithful(&a) {
                        continue;
                    }
                    let attrs = if ci % 2 == 0 { None } else { Some([("i".to_string(), AnyV::Bool(true))].into_iter().collect::<AttrsV>()) };
                    ops.push(Op::TEmbed { t: Tgt::root('t'), i: n / 2, v: a, attrs });
                }
            }
        }
        // several cells of mixed kinds in one call (the C function batches consecutive JSON-like cells)
        if fam == Fam::Arr {
            ops.push(Op::AInsRange { t: Tgt::root('a'), i: 0, vs: vec![AnyV::Null, AnyV::s("\u{e9}"), AnyV::Buf(vec![1, 2]), AnyV::Arr(vec![AnyV::Big(1)])] });
            let n = match model.get(&'a') {
                Some(Node::Array(a)) => a.len(),
                _ => 0,
            };
            for i in [0, n] {
                ops.push(Op::AInsMixed {
                    t: Tgt::root('a'),
                    i,
                    vs: vec![Val::Any(AnyV::Big(k as i64)), Val::Any(AnyV::s("p")), Val::Text("q".into()), Val::Any(AnyV::Null), Val::Array(vec![AnyV::Big(1)]), Val::Map(vec![("k".into(), AnyV::Bool(true))]), Val::Any(AnyV::Big(-(k as i64)))],
                });
            }
            ops.push(Op::AInsMixed { t: Tgt::root('a'), i: n / 2, vs: vec![Val::Text("x".into()), Val::Any(AnyV::Big(k as i64 + 50)), Val::Any(AnyV::Undef)] });
        }
    }
    // rich-text calls on XML text nodes (yxmltext_insert with attributes, yxmltext_insert_embed)
    if fam == Fam::Xml && level >= 1 {
        if let Some(Node::XmlFragment(ch)) = model.get(&'x') {
            let mut idx = vec![];
            if !ch.is_empty() {
                idx.push(0);
                if ch.len() > 1 {
                    idx.push(ch.len() - 1);
                }
            }
            for i in idx {
                if let Node::XmlText { units, .. } = &ch[i] {
                    let t = Tgt::root('x').child(Seg::I(i as u32));
                    let b: AttrsV = [("b".to_string(), AnyV::Bool(true))].into_iter().collect();
                    ops.push(Op::TInsA { t: t.clone(), i: units.len() / 2, s: tag_char2(k).to_string(), attrs: b.clone() });
                    ops.push(Op::TEmbed { t: t.clone(), i: units.len(), v: AnyV::num(1000.0 + k as f64), attrs: None });
                    ops.push(Op::TEmbed { t: t.clone(), i: 0, v: AnyV::num(2000.0 + k as f64), attrs: Some(b) });
                }
            }
        }
    }
    ops
}

fn enumerate(fam: Fam, level: u8, with_cells: bool, depth: usize, model: &Model, prog: &mut Vec<Op>, f: &mut dyn FnMut(&[Op])) {
    if prog.len() == depth {
        f(prog);
        return;
    }
    let ops = alphabet(fam, level, with_cells, model, prog.len());
    if ops.is_empty() {
        f(prog);
        return;
    }
    for op in ops {
        let mut m = model.clone();
        if apply_model(&mut m, &op).is_err() {
            continue;
        }
        prog.push(op);
        enumerate(fam, level, with_cells, depth, &m, prog, f);
        prog.pop();
    }
}

/// JSON text cells (`yinput_json`): the text and the value it denotes (integers beyond +-(2^53-1) are exact 64-bit values,
/// everything else a double - the rule of `Any`)
fn json_texts() -> Vec<(String, AnyV)> {
    let mut v: Vec<(String, AnyV)> = vec![
        ("null".into(), AnyV::Null),
        ("true".into(), AnyV::Bool(true)),
        ("1.5".into(), AnyV::num(1.5)),
        ("-2.5e3".into(), AnyV::num(-2500.0)),
        ("\"h\u{e9}\u{1f600}\"".into(), AnyV::s("h\u{e9}\u{1f600}")),
        ("[]".into(), AnyV::Arr(vec![])),
        ("[1,[\"x\",null],-9007199254740993]".into(), AnyV::Arr(vec![AnyV::num(1.0), AnyV::Arr(vec![AnyV::s("x"), AnyV::Null]), AnyV::Big(-9007199254740993)])),
        ("{\"k\":[false,9007199254740995]}".into(), AnyV::Map([("k".to_string(), AnyV::Arr(vec![AnyV::Bool(false), AnyV::Big(9007199254740995)]))].into_iter().collect())),
    ];
    const SAFE: i64 = (1i64 << 53) - 1;
    for n in [0i64, 1, -1, SAFE - 1, SAFE, SAFE + 1, SAFE + 2, SAFE + 3, SAFE + 4, (1i64 << 62) + 1, i64::MAX - 1, i64::MAX] {
        for x in [n, n.wrapping_neg(), if n > 1 { -n - 1 } else { n }] {
            let want = if x >= -SAFE && x <= SAFE { AnyV::num(x as f64) } else { AnyV::Big(x) };
            v.push((x.to_string(), want));
        }
    }
    v.sort_by(|a, b| a.0.cmp(&b.0));
    v.dedup_by(|a, b| a.0 == b.0);
    v
}

unsafe fn run_json_cell(text: &str, want: &AnyV) -> Result<(), (String, String)> {
    let d = CDoc::new(1, false, true);
    let (a, _) = d.root('a');
    let (m, _) = d.root('m');
    let txn = c::ydoc_write_transaction(d.doc, 0, null());
    let cs = CString::new(text).map_err(|e| ("harness".to_string(), e.to_string()))?;
    let key = CString::new("k").unwrap();
    let cell = c::yinput_json(cs.as_ptr() as *mut c_char);
    c::yarray_insert_range(a, txn, 0, &cell, 1);
    c::ymap_insert(m, txn, key.as_ptr() as *mut c_char, &cell);
    let got = c_dump_all(&d, txn as *const c::Transaction, OffsetKind::Bytes).map_err(|e| ("json-cell:c-getter".to_string(), e))?;
    c::ytransaction_commit(txn);
    // the twin: the denoted value inserted natively
    let t = twin_doc(1, false, true);
    let roots = Roots::new(&t);
    {
        let mut w = t.transact_mut();
        yrs::Array::insert(&roots.a, &mut w, 0, want.to_any());
        yrs::Map::insert(&roots.m, &mut w, "k", want.to_any());
    }
    let r = t.transact();
    let tw = roots.dump_all(&r);
    if got != tw {
        return Err(("json-cell:value-differs-from-native".to_string(), format!("yinput_json({}) reads back as {} but the natively inserted value {} reads {}", text, show(&got), show_any(want), show(&tw))));
    }
    Ok(())
}

fn run(ctx: &mut Ctx) {
    let mut idx = 0u64;
    // JSON text cells
    if ctx.shard == 0 {
        let texts = json_texts();
        ctx.count("json_text_cells", texts.len() as u64);
        for (text, want) in texts {
            let cj = || json!({"kind": "json-cell", "text": text});
            let res = ctx.exec(&cj, |ctx| {
                ctx.count("transitions", 2);
                unsafe { run_json_cell(&text, &want) }
            });
            match res {
                Some(Err((class, msg))) if class == "harness" => ctx.machinery_error(msg),
                Some(Err((class, msg))) => ctx.violation("c-vs-rust", &class, msg, cj()),
                _ => {}
            }
            ctx.state(hash_of(&("json-cell", &text)));
        }
    }
    for (fam, depth, level, with_cells) in bounds(ctx.tier) {
        let mut progs: Vec<Vec<Op>> = Vec::new();
        enumerate(fam, level, with_cells, depth, &empty_model(), &mut Vec::new(), &mut |p| {
            idx += 1;
            if (idx % ctx.nshards as u64) as usize == ctx.shard {
                progs.push(p.to_vec());
            }
        });
        ctx.count(&format!("programs_{}{}", fam.name(), if with_cells { "_cells" } else { "" }), progs.len() as u64);
        for p in progs {
            if ctx.out_of_time() {
                return;
            }
            let n = p.len();
            let masks = 1u32 << n.saturating_sub(1);
            for mask in 0..masks {
                for utf16 in [false, true] {
                    if utf16 && !matches!(fam, Fam::Txt | Fam::Rtx | Fam::Uni | Fam::Xml) {
                        continue;
                    }
                    for gc in [true, false] {
                        // the undo pass rides on the fully committed grouping
                        let undo = mask + 1 == masks;
                        // tracked origins: none configured | every second transaction tracked | all tracked
                        let all = (1u32 << n) - 1;
                        let origin_sets: Vec<u32> = if undo && gc && n >= 2 { vec![0, 0b0101_0101 & all, all] } else { vec![0] };
                        for origins in origin_sets {
                            let case = Case {
                                fam,
                                utf16,
                                gc,
                                level,
                                undo,
                                origins,
                                prog: p.iter().enumerate().map(|(i, o)| (o.clone(), i + 1 == n || mask & (1 << i) != 0)).collect(),
                            };
                            let cj = || serde_json::to_value(&case).unwrap();
                            ctx.exec(&cj, |ctx| run_case(ctx, &case, &cj));
                            ctx.sample(cj);
                        }
                    }
                }
            }
        }
    }
}

fn replay(ctx: &mut Ctx, case: &Value) {
    if case["kind"] == "json-cell" {
        let text = case["text"].as_str().unwrap_or("").to_string();
        let want = json_texts().into_iter().find(|(t, _)| *t == text);
        let cj = || case.clone();
        match want {
            Some((_, want)) => {
                if let Some(Err((class, msg))) = ctx.exec(&cj, |_| unsafe { run_json_cell(&text, &want) }) {
                    ctx.violation("c-vs-rust", &class, msg, cj());
                }
            }
            None => ctx.machinery_error(format!("unknown json cell {}", text)),
        }
        return;
    }
    match serde_json::from_value::<Case>(case.clone()) {
        Ok(c) => {
            let cj = || case.clone();
            ctx.exec(&cj, |ctx| run_case(ctx, &c, &cj));
        }
        Err(e) => ctx.machinery_error(format!("bad case: {}", e)),
    }
}
