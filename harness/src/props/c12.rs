//! C12 — undo/redo are inverses of the captured local changes and touch nothing else.
use super::conv::show_model;
use crate::engine::*;
use crate::model::*;
use crate::ops::*;
use crate::seq::visible_tags;
use crate::world::*;
use serde::{Deserialize, Serialize};
use serde_json::{json, Value};
use std::collections::{BTreeSet, HashMap};
use std::sync::atomic::{AtomicU64, Ordering};
use std::sync::Arc;
use yrs::updates::decoder::Decode;
use yrs::{Transact, UndoManager, Update};

pub fn def() -> PropDef {
    PropDef {
        id: "C12",
        title: "undo/redo are inverses and touch nothing else",
        shards: |t| t.pick(32, 128),
        run,
        replay,
        rule: "one document with an UndoManager (scope = the family's root type(s), tracked origin = none, controlled clock) plus a remote replica; ALL sequences of <= L actions from {tracked edit, clock tick (new capture step), edit under an untracked origin, tracked edit on an unscoped type, remote edit (replica syncs, edits, update applied), undo, redo}, state-matched on internal dump + stacks. Oracle: (inverse) a model of two snapshot stacks taken at capture-step boundaries: an undo/redo that pops k stack items must yield the snapshot k boundaries back whenever no foreign origin edited the scope since that snapshot; a fresh tracked edit empties the redo stack; (locality) foreign elements visible before an undo stay visible in the same relative order (before a redo: unless a tracked step had deleted them), unscoped types are untouched by undo/redo; (replication) after every step the remote replica, fed only by update events, converges to the same content. distinct_nontrivial = distinct (content before, content after) pairs of undo/redo calls that changed something",
        assumptions: &[
            "capture grouping: consecutive tracked edits merge unless a tick separates them (timeout 10, tick 100)",
            "foreign elements are identified by their unique tag content",
        ],
    }
}

#[derive(Clone, Debug, PartialEq, Eq, Hash, Serialize, Deserialize)]
pub enum A12 {
    Edit(Op),
    Tick,
    Other(Op),
    Unscoped(Op),
    Remote(Op),
    Undo,
    Redo,
}

#[derive(Clone, Debug, Serialize, Deserialize)]
pub struct Cfg12 {
    pub fam: Fam,
    pub level: u8,
    pub gc: bool,
    pub foreign: bool,
    /// every action is its own capture step (no Tick actions needed)
    #[serde(default)]
    pub auto_tick: bool,
    /// restrict the alphabet to operations below this root (smaller alphabet, deeper search)
    #[serde(default)]
    pub only_root: Option<char>,
    /// at most this many edit actions per sequence (0 = unlimited); the rest is undo/redo
    #[serde(default)]
    pub max_edits: usize,
}

fn scoped_roots(fam: Fam) -> Vec<char> {
    match fam {
        Fam::Arr => vec!['a'],
        Fam::Map => vec!['m'],
        Fam::Nest => vec!['a', 'm'],
        Fam::Xml => vec!['x'],
        _ => vec!['t'],
    }
}
fn unscoped_fam(fam: Fam) -> Fam {
    match fam {
        Fam::Txt | Fam::Rtx | Fam::Uni => Fam::Arr,
        _ => Fam::Txt,
    }
}

struct W12 {
    d: Replica,
    e: Replica,
    um: UndoManager,
    clock: Arc<AtomicU64>,
    d_events_sent: usize,
    d_events: Vec<Vec<u8>>,
    nops: usize,
    fam: Fam,
    auto_tick: bool,
    // model
    undo_snaps: Vec<(Model, bool)>, // (scoped content before the step, foreign edit since?)
    redo_snaps: Vec<(Model, bool)>,
    foreign_tags: BTreeSet<String>,
    foreign_deleted_by_tracked: BTreeSet<String>,
}

fn scoped(m: &Model, fam: Fam) -> Model {
    let roots = scoped_roots(fam);
    m.iter().filter(|(k, _)| roots.contains(k)).map(|(k, v)| (*k, v.clone())).collect()
}
fn unscoped(m: &Model, fam: Fam) -> Model {
    let roots = scoped_roots(fam);
    m.iter().filter(|(k, _)| !roots.contains(k)).map(|(k, v)| (*k, v.clone())).collect()
}

/// all leaf tags of the scoped roots in document order (sequence roots) / key order (maps)
fn tags_of(m: &Model, fam: Fam) -> Vec<String> {
    let mut out = Vec::new();
    for r in scoped_roots(fam) {
        if let Some(n) = m.get(&r) {
            match n {
                Node::Map(mm) => {
                    for (k, v) in mm {
                        out.push(format!("{}={}", k, v.show()));
                    }
                }
                other => out.extend(visible_tags(other)),
            }
        }
    }
    out
}

impl W12 {
    fn new(cfg: &Cfg12) -> W12 {
        let d = Replica::new(RCfg { client: 5, gc: cfg.gc, utf16: false, cleanup: true });
        let e = Replica::new(RCfg { client: 3, gc: true, utf16: false, cleanup: false });
        let clock = Arc::new(AtomicU64::new(1000));
        let c2 = clock.clone();
        let mut o = yrs::undo::Options::default();
        o.capture_timeout_millis = 10;
        o.timestamp = Arc::new(move || c2.load(Ordering::SeqCst));
        let mut um = UndoManager::with_options(o);
        for r in scoped_roots(cfg.fam) {
            match r {
                'a' => um.expand_scope(&d.doc, &d.roots.a),
                'm' => um.expand_scope(&d.doc, &d.roots.m),
                'x' => um.expand_scope(&d.doc, &d.roots.x),
                _ => um.expand_scope(&d.doc, &d.roots.t),
            }
        }
        W12 {
            d,
            e,
            um,
            clock,
            d_events_sent: 0,
            d_events: Vec::new(),
            nops: 0,
            fam: cfg.fam,
            auto_tick: cfg.auto_tick,
            undo_snaps: Vec::new(),
            redo_snaps: Vec::new(),
            foreign_tags: BTreeSet::new(),
            foreign_deleted_by_tracked: BTreeSet::new(),
        }
    }

    fn collect_events(&mut self) {
        let evs: Vec<(bool, Vec<u8>)> = self.d.capture.borrow_mut().drain(..).collect();
        for (v2, b) in evs {
            if !v2 {
                self.d_events.push(b);
            }
        }
    }

    fn sync_e(&mut self) -> Result<(), (String, String)> {
        for i in self.d_events_sent..self.d_events.len() {
            self.e
                .apply(&self.d_events[i], false)
                .map_err(|e| ("event-not-appliable".to_string(), e))?;
        }
        self.d_events_sent = self.d_events.len();
        Ok(())
    }

    fn step(&mut self, a: &A12) -> Result<(), (String, String)> {
        self.clock.fetch_add(if self.auto_tick { 100 } else { 1 }, Ordering::SeqCst);
        let fam = self.fam;
        let before = self.d.dump();
        let (ul0, rl0) = (self.um.undo_stack().len(), self.um.redo_stack().len());
        self.d.capture.borrow_mut().clear();
        match a {
            A12::Tick => {
                self.clock.fetch_add(100, Ordering::SeqCst);
                return Ok(());
            }
            A12::Edit(op) | A12::Unscoped(op) => {
                self.nops += 1;
                {
                    let mut txn = self.d.doc.transact_mut();
                    apply_real(&self.d.roots, &mut txn, self.d.cfg.kind(), op).map_err(|e| ("harness".to_string(), e))?;
                }
                self.collect_events();
                let after = self.d.dump();
                let (ul1, rl1) = (self.um.undo_stack().len(), self.um.redo_stack().len());
                if matches!(a, A12::Unscoped(_)) {
                    if (ul1, rl1) != (ul0, rl0) {
                        return Err((
                            "unscoped-edit-captured".into(),
                            format!("an edit on an unscoped type changed the stacks from ({},{}) to ({},{})", ul0, rl0, ul1, rl1),
                        ));
                    }
                } else {
                    let changed = scoped(&before, fam) != scoped(&after, fam);
                    if ul1 == ul0 + 1 {
                        self.undo_snaps.push((scoped(&before, fam), false));
                    } else if ul1 != ul0 {
                        return Err(("stack-size".into(), format!("tracked edit changed undo stack size {} -> {}", ul0, ul1)));
                    } else if changed && ul0 == 0 {
                        return Err(("tracked-edit-not-captured".into(), format!("a tracked edit changed the scope ({} -> {}) but nothing was captured", show_model(&before), show_model(&after))));
                    }
                    if (changed || ul1 != ul0) && rl1 != 0 {
                        return Err(("redo-stack-not-cleared".into(), format!("a fresh tracked edit left {} items on the redo stack", rl1)));
                    }
                    if rl1 == 0 {
                        self.redo_snaps.clear();
                    }
                    // foreign elements deleted by the tracked origin may disappear again on redo
                    let (tb, ta): (BTreeSet<String>, BTreeSet<String>) = (tags_of(&before, fam).into_iter().collect(), tags_of(&after, fam).into_iter().collect());
                    for t in tb.difference(&ta) {
                        if self.foreign_tags.contains(t) {
                            self.foreign_deleted_by_tracked.insert(t.clone());
                        }
                    }
                }
            }
            A12::Other(op) | A12::Remote(op) => {
                self.nops += 1;
                if let A12::Other(_) = a {
                    let mut txn = self.d.doc.transact_mut_with("other-origin");
                    apply_real(&self.d.roots, &mut txn, self.d.cfg.kind(), op).map_err(|e| ("harness".to_string(), e))?;
                } else {
                    self.sync_e()?;
                    self.e.capture.borrow_mut().clear();
                    {
                        let mut txn = self.e.doc.transact_mut();
                        apply_real(&self.e.roots, &mut txn, self.e.cfg.kind(), op).map_err(|e| ("harness".to_string(), e))?;
                    }
                    let evs: Vec<(bool, Vec<u8>)> = self.e.capture.borrow_mut().drain(..).collect();
                    if let Some((_, b)) = evs.iter().find(|e| !e.0) {
                        let u = Update::decode_v1(b).map_err(|e| ("harness".to_string(), e.to_string()))?;
                        let mut txn = self.d.doc.transact_mut_with("remote");
                        txn.apply_update(u).map_err(|e| ("remote-apply-fails".to_string(), e.to_string()))?;
                    }
                }
                self.collect_events();
                let after = self.d.dump();
                let (ul1, rl1) = (self.um.undo_stack().len(), self.um.redo_stack().len());
                if (ul1, rl1) != (ul0, rl0) {
                    return Err((
                        "foreign-edit-captured".into(),
                        format!("an edit of an untracked origin changed the stacks from ({},{}) to ({},{})", ul0, rl0, ul1, rl1),
                    ));
                }
                for s in self.undo_snaps.iter_mut().chain(self.redo_snaps.iter_mut()) {
                    s.1 = true;
                }
                let (tb, ta): (BTreeSet<String>, BTreeSet<String>) = (tags_of(&before, fam).into_iter().collect(), tags_of(&after, fam).into_iter().collect());
                for t in ta.difference(&tb) {
                    self.foreign_tags.insert(t.clone());
                }
            }
            A12::Undo | A12::Redo => {
                let undo = matches!(a, A12::Undo);
                let ret = if undo { self.um.undo_blocking() } else { self.um.redo_blocking() };
                self.collect_events();
                let after = self.d.dump();
                let (ul1, rl1) = (self.um.undo_stack().len(), self.um.redo_stack().len());
                let name = if undo { "undo" } else { "redo" };
                if unscoped(&before, fam) != unscoped(&after, fam) {
                    return Err((
                        format!("{}-touches-unscoped-type", name),
                        format!("{} changed unscoped content {} -> {}", name, show_model(&unscoped(&before, fam)), show_model(&unscoped(&after, fam))),
                    ));
                }
                let (from_len0, from_len1, to_len0, to_len1) = if undo { (ul0, ul1, rl0, rl1) } else { (rl0, rl1, ul0, ul1) };
                if from_len1 > from_len0 {
                    return Err((format!("{}-stack-size", name), format!("{} grew its own stack {} -> {}", name, from_len0, from_len1)));
                }
                let k = from_len0 - from_len1;
                let changed = scoped(&before, fam) != scoped(&after, fam);
                if ret != changed && ret == false {
                    return Err((format!("{}-return-value", name), format!("{} returned false but the scope changed {} -> {}", name, show_model(&before), show_model(&after))));
                }
                if ret && to_len1 != to_len0 + 1 {
                    return Err((format!("{}-stack-size", name), format!("{} reported a change but the opposite stack went {} -> {}", name, to_len0, to_len1)));
                }
                // inverse law
                let (from, to) = if undo { (&mut self.undo_snaps, &mut self.redo_snaps) } else { (&mut self.redo_snaps, &mut self.undo_snaps) };
                if from.len() != from_len0 {
                    return Err(("harness".into(), format!("model stack {} vs real {}", from.len(), from_len0)));
                }
                let mut expected: Option<(Model, bool)> = None;
                for _ in 0..k {
                    expected = from.pop();
                }
                if let Some((snap, foreign)) = expected {
                    if ret {
                        if !foreign && scoped(&after, fam) != snap {
                            return Err((
                                format!("{}-not-inverse", name),
                                format!(
                                    "{} popped {} step(s): content {} but the snapshot at that boundary was {} (before the call: {})",
                                    name,
                                    k,
                                    show_model(&scoped(&after, fam)),
                                    show_model(&snap),
                                    show_model(&scoped(&before, fam))
                                ),
                            ));
                        }
                        to.push((scoped(&before, fam), foreign));
                    } else if !foreign && scoped(&after, fam) != snap && k > 0 {
                        // popped everything without a visible change: then the boundary snapshot
                        // must already be what we see
                        return Err((
                            format!("{}-not-inverse", name),
                            format!("{} popped {} step(s) without changing anything, yet the boundary snapshot {} differs from the content {}", name, k, show_model(&snap), show_model(&scoped(&after, fam))),
                        ));
                    }
                } else if ret {
                    return Err((format!("{}-stack-size", name), format!("{} changed content without popping a step", name)));
                }
                // locality: foreign elements stay, in order
                let tb = tags_of(&before, fam);
                let ta = tags_of(&after, fam);
                let fb: Vec<&String> = tb.iter().filter(|t| self.foreign_tags.contains(*t)).collect();
                let fa: Vec<&String> = ta.iter().filter(|t| self.foreign_tags.contains(*t)).collect();
                let must_stay: Vec<&String> = fb
                    .iter()
                    .copied()
                    .filter(|t| undo || !self.foreign_deleted_by_tracked.contains(*t))
                    .collect();
                let kept: Vec<&String> = fa.iter().copied().filter(|t| must_stay.contains(t)).collect();
                let contained = matches!(fam, Fam::Nest | Fam::Xml);
                if !contained && kept != must_stay {
                    // one narrow way this happens (known finding): a foreign map value that a tracked step had
                    // overwritten and an earlier undo re-created as a copy; the copy counts as the undo manager's
                    // own item, so the conflict test in ItemPtr::redo walks past it and an older tracked value is
                    // restored on top of it
                    let lost: Vec<&&String> = must_stay.iter().filter(|t| !kept.contains(*t)).collect();
                    let restored_copy = undo && matches!(fam, Fam::Map) && !lost.is_empty() && lost.iter().all(|t| self.foreign_deleted_by_tracked.contains(**t));
                    let sub = if restored_copy { ":foreign-map-value-restored-by-an-earlier-undo" } else { "" };
                    return Err((
                        format!("{}-disturbs-foreign-elements{}", name, sub),
                        format!("{}: foreign elements before {:?}, after {:?} (all visible before {:?}, after {:?})", name, must_stay, kept, tb, ta),
                    ));
                }
            }
        }
        // replication: the remote replica converges from events alone
        self.sync_e()?;
        if self.e.dump() != self.d.dump() {
            // fingerprint of the one known way this happens: undo/redo re-created an entry of a
            // re-created container but chained it behind an entry of the OLD (deleted) container
            let sd = self.d.store_dump();
            let idx = crate::seq::block_index(&sd);
            let chained_across_parents = matches!(a, A12::Undo | A12::Redo)
                && idx.values().any(|b| {
                    b.parent_sub.is_some()
                        && !b.deleted
                        && b.left
                            .and_then(|l| idx.values().find(|p| p.id.0 == l.0 && p.id.1 <= l.1 && l.1 < p.id.1 + p.len))
                            .map(|p| p.parent != b.parent)
                            .unwrap_or(false)
                });
            return Err((
                if chained_across_parents {
                    "replica-diverges:redone-entry-chained-to-entry-of-deleted-container".into()
                } else {
                    "replica-diverges".into()
                },
                format!("after {:?}: document shows {} but the replica fed by its update events shows {}", a, show_model(&self.d.dump()), show_model(&self.e.dump())),
            ));
        }
        Ok(())
    }

    fn key(&self) -> u64 {
        hash_of(&(
            self.d.store_hash(),
            self.e.store_hash(),
            self.um.undo_stack().len(),
            self.um.redo_stack().len(),
            format!("{:?}{:?}", self.um.undo_stack(), self.um.redo_stack()),
            &self.undo_snaps,
            &self.redo_snaps,
            &self.foreign_tags,
        ))
    }

    fn enabled(&self, cfg: &Cfg12, last_tick: bool) -> Vec<A12> {
        let mut out = Vec::new();
        let st = self.d.dump();
        if cfg.max_edits == 0 || self.nops < cfg.max_edits {
            for op in gen_ops(cfg.fam, &st, self.nops, cfg.level) {
                if cfg.only_root.map(|r| op.tgt().root == r).unwrap_or(true) {
                    out.push(A12::Edit(op));
                }
            }
        }
        if !cfg.auto_tick && !last_tick && self.um.undo_stack().len() > 0 {
            out.push(A12::Tick);
        }
        if self.um.can_undo() {
            out.push(A12::Undo);
        }
        if self.um.can_redo() {
            out.push(A12::Redo);
        }
        if cfg.foreign {
            for op in gen_ops(cfg.fam, &st, self.nops, 0) {
                out.push(A12::Other(op.clone()));
                out.push(A12::Remote(op));
            }
            for op in gen_ops(unscoped_fam(cfg.fam), &st, self.nops, 0).into_iter().take(2) {
                out.push(A12::Unscoped(op));
            }
        }
        out
    }
}

fn bounds(tier: Tier) -> Vec<(Cfg12, usize)> {
    let c = |fam, level, gc, foreign| Cfg12 { fam, level, gc, foreign, auto_tick: false, only_root: None, max_edits: 0 };
    let ca = |fam, level, gc, foreign| Cfg12 { fam, level, gc, foreign, auto_tick: true, only_root: None, max_edits: 0 };
    let cr = |fam, level, gc, root| Cfg12 { fam, level, gc, foreign: false, auto_tick: true, only_root: Some(root), max_edits: 3 };
    let cm = |fam, level, gc, edits| Cfg12 { fam, level, gc, foreign: false, auto_tick: true, only_root: None, max_edits: edits };
    match tier {
        Tier::Quick => vec![
            (c(Fam::Txt, 0, true, false), 7),
            (c(Fam::Txt, 0, true, true), 5),
            (c(Fam::Map, 1, true, false), 6),
            (c(Fam::Map, 0, false, true), 5),
            (c(Fam::Arr, 0, true, false), 6),
            (c(Fam::Arr, 0, true, true), 4),
            (c(Fam::Rtx, 0, true, false), 4),
            (c(Fam::Nest, 0, true, false), 5),
            (c(Fam::Nest, 0, true, true), 4),
            (cr(Fam::Nest, 0, true, 'a'), 8),
            (cr(Fam::Nest, 0, true, 'm'), 8),
            (cm(Fam::Txt, 0, true, 3), 8),
            (c(Fam::Xml, 0, true, false), 4),
            // untracked-origin edits squashed with tracked ones, range deletes over both (one capture step per action)
            (ca(Fam::Txt, 1, true, true), 5),
            (ca(Fam::Arr, 1, true, true), 5),
        ],
        Tier::Thorough => vec![
            (c(Fam::Txt, 0, true, false), 9),
            (c(Fam::Txt, 1, false, false), 7),
            (c(Fam::Txt, 0, true, true), 6),
            (c(Fam::Map, 1, true, false), 8),
            (c(Fam::Map, 0, false, true), 6),
            (c(Fam::Arr, 1, true, false), 7),
            (c(Fam::Arr, 0, true, true), 6),
            (c(Fam::Rtx, 0, true, false), 6),
            (c(Fam::Rtx, 0, true, true), 5),
            (c(Fam::Nest, 0, true, false), 6),
            (c(Fam::Nest, 0, true, true), 5),
            (ca(Fam::Nest, 0, true, false), 7),
            (cr(Fam::Nest, 0, true, 'a'), 10),
            (cr(Fam::Nest, 0, false, 'm'), 10),
            (cm(Fam::Nest, 0, true, 4), 9),
            (cm(Fam::Txt, 1, true, 4), 10),
            (cm(Fam::Map, 1, true, 4), 10),
            (cm(Fam::Arr, 1, true, 4), 10),
            (cm(Fam::Xml, 0, true, 3), 8),
            (ca(Fam::Nest, 1, false, false), 7),
            (ca(Fam::Txt, 0, true, false), 9),
            (ca(Fam::Map, 1, true, true), 6),
            (c(Fam::Xml, 0, true, false), 6),
            (c(Fam::Xml, 0, true, true), 4),
            (ca(Fam::Txt, 1, true, true), 6),
            (ca(Fam::Arr, 1, true, true), 6),
        ],
    }
}

fn build(cfg: &Cfg12, trace: &[A12]) -> (W12, Option<(String, String)>) {
    let mut w = W12::new(cfg);
    for a in trace {
        if let Err(e) = w.step(a) {
            return (w, Some(e));
        }
    }
    (w, None)
}

fn dfs(ctx: &mut Ctx, cfg: &Cfg12, max: usize, trace: &mut Vec<A12>, visited: &mut HashMap<u64, usize>, idx: &mut u64) {
    if ctx.out_of_time() {
        return;
    }
    let case = json!({"cfg": cfg, "trace": trace});
    let cj = || case.clone();
    let res = ctx.exec(&cj, |ctx| {
        ctx.count("transitions", trace.len() as u64);
        build(cfg, trace)
    });
    let Some((w, verdict)) = res else { return };
    if let Some((class, msg)) = verdict {
        if class == "harness" {
            ctx.machinery_error(format!("{} on {}", msg, case));
        } else {
            ctx.violation("undo", &class, msg, cj());
        }
        return;
    }
    ctx.sample(cj);
    let key = w.key();
    let remaining = max - trace.len();
    match visited.get(&key) {
        Some(&r) if r >= remaining => {
            ctx.count("pruned_revisits", 1);
            return;
        }
        _ => {}
    }
    visited.insert(key, remaining);
    ctx.state(key);
    if matches!(trace.last(), Some(A12::Undo) | Some(A12::Redo)) {
        ctx.outcome(hash_of(&(trace.last(), w.d.dump(), w.undo_snaps.len(), w.redo_snaps.len())));
    }
    if trace.len() >= max {
        return;
    }
    let acts = w.enabled(cfg, matches!(trace.last(), Some(A12::Tick)));
    drop(w);
    for a in acts {
        if trace.len() == 1 {
            *idx += 1;
            if !ctx.mine(*idx) {
                continue;
            }
        }
        trace.push(a);
        dfs(ctx, cfg, max, trace, visited, idx);
        trace.pop();
    }
}

fn run(ctx: &mut Ctx) {
    let mut idx = 0u64;
    for (cfg, max) in bounds(ctx.tier) {
        let mut visited = HashMap::new();
        dfs(ctx, &cfg, max, &mut Vec::new(), &mut visited, &mut idx);
    }
}

fn replay(ctx: &mut Ctx, case: &Value) {
    let cfg: Cfg12 = match serde_json::from_value(case["cfg"].clone()) {
        Ok(c) => c,
        Err(e) => return ctx.machinery_error(format!("bad case: {}", e)),
    };
    let trace: Vec<A12> = match serde_json::from_value(case["trace"].clone()) {
        Ok(c) => c,
        Err(e) => return ctx.machinery_error(format!("bad case: {}", e)),
    };
    let cj = || case.clone();
    if std::env::var("VERIF_TRACE").is_ok() {
        for k in 0..=trace.len() {
            let (w, v) = build(&cfg, &trace[..k]);
            eprintln!("--- after {} steps ({:?}) verdict {:?}\nD: {}\n{}E: {}\n{}", k, trace[..k].last(), v, show_model(&w.d.dump()), show_store(&w.d.store_dump()), show_model(&w.e.dump()), show_store(&w.e.store_dump()));
        }
    }
    if let Some((_, Some((class, msg)))) = ctx.exec(&cj, |_| build(&cfg, &trace)) {
        ctx.violation("undo", &class, msg, cj());
    }
}
