//! C15 — garbage collection is invisible.
use super::conv::show_model;
use crate::engine::*;
use crate::model::*;
use crate::ops::*;
use crate::world::*;
use serde::{Deserialize, Serialize};
use serde_json::{json, Value};
use std::collections::HashMap;
use yrs::ReadTxn;
use std::sync::atomic::{AtomicU64, Ordering};
use std::sync::Arc;
use yrs::{Transact, UndoManager};

pub fn def() -> PropDef {
    PropDef {
        id: "C15",
        title: "garbage collection is invisible",
        shards: |t| t.pick(32, 128),
        run,
        replay,
        rule: "every history (local ops with deletions, causal syncs, forced gc as an action at every point) over txt/rtx/arr/map/nest/xml is executed in LOCK-STEP on a reference world (all replicas gc-off, forced gc skipped) and on one world per other assignment of gc on/off to the R replicas; after every step the visible dumps of corresponding replicas must be equal (this includes gc<->non-gc syncs in both directions and forced gc); at every state a document rebuilt from each replica's full state (v1,v2) must equal it. Second part: one document with an UndoManager, twin with gc on vs off, actions {op, forced gc, undo, redo}: lock-step equality, i.e. undo after gc still restores. State-matched on the internal dumps of all worlds. distinct_nontrivial = distinct states in which some gc-enabled replica holds collected (GC/Deleted) blocks",
        assumptions: &["the reference world never collects"],
    }
}

#[derive(Clone, Debug, Serialize, Deserialize)]
struct Cfg15 {
    fam: Fam,
    level: u8,
    r: usize,
    depth: usize,
}

fn bounds(tier: Tier) -> Vec<Cfg15> {
    let c = |fam, level, r, depth| Cfg15 { fam, level, r, depth };
    match tier {
        Tier::Quick => vec![
            c(Fam::Txt, 1, 2, 4),
            c(Fam::Map, 1, 2, 4),
            c(Fam::Nest, 0, 2, 3),
            c(Fam::Nest, 1, 2, 3),
            c(Fam::Rtx, 0, 2, 3),
            c(Fam::Rtx, 4, 2, 3),
            c(Fam::Arr, 1, 2, 3),
        ],
        Tier::Thorough => vec![
            c(Fam::Txt, 1, 2, 4),
            c(Fam::Txt, 0, 2, 5),
            c(Fam::Txt, 0, 3, 3),
            c(Fam::Map, 1, 2, 4),
            c(Fam::Nest, 0, 2, 4),
            c(Fam::Nest, 1, 2, 3),
            c(Fam::Rtx, 0, 2, 4),
            c(Fam::Rtx, 4, 2, 4),
            c(Fam::Arr, 1, 2, 4),
            c(Fam::Xml, 0, 2, 3),
        ],
    }
}

fn assignments(r: usize) -> Vec<Vec<bool>> {
    // all assignments except all-off (that is the reference)
    (1..(1u32 << r)).map(|m| (0..r).map(|i| m & (1 << i) != 0).collect()).collect()
}

fn cfgs_for(gc: &[bool]) -> Vec<RCfg> {
    gc.iter()
        .enumerate()
        .map(|(i, g)| RCfg { client: i as u64 + 1, gc: *g, utf16: false, cleanup: true })
        .collect()
}

struct Multi {
    reference: World,
    others: Vec<(Vec<bool>, World)>,
}

fn build(c: &Cfg15, trace: &[Act]) -> Result<Multi, (String, String)> {
    let ref_cfg = cfgs_for(&vec![false; c.r]);
    let mut reference = World::new(&ref_cfg);
    let mut others: Vec<(Vec<bool>, World)> = assignments(c.r)
        .into_iter()
        .map(|a| {
            let w = World::new(&cfgs_for(&a));
            (a, w)
        })
        .collect();
    for (k, a) in trace.iter().enumerate() {
        if !matches!(a, Act::Gc { .. }) {
            reference
                .step(a)
                .map_err(|e| ("step-fails".to_string(), format!("reference world, step {}: {}", k, e)))?;
        }
        for (asg, w) in others.iter_mut() {
            w.step(a)
                .map_err(|e| ("step-fails-with-gc".to_string(), format!("gc assignment {:?}, step {} ({:?}): {}", asg, k, a, e)))?;
            for i in 0..c.r {
                let (d0, d1) = (reference.reps[i].dump(), w.reps[i].dump());
                if d0 != d1 {
                    return Err((
                        if matches!(a, Act::Gc { .. }) { "forced-gc-changes-content".to_string() } else { "gc-changes-content".to_string() },
                        format!(
                            "after step {} ({:?}) replica {} shows {} without gc but {} with gc assignment {:?}",
                            k,
                            a,
                            i,
                            show_model(&d0),
                            show_model(&d1),
                            asg
                        ),
                    ));
                }
            }
        }
    }
    Ok(Multi { reference, others })
}

fn check_rebuild(m: &Multi) -> Result<(), (String, String)> {
    for (asg, w) in &m.others {
        for (i, rep) in w.reps.iter().enumerate() {
            for v2 in [false, true] {
                let bytes = rep.full_state(v2);
                let fresh = Replica::new(RCfg { client: 50, gc: true, utf16: false, cleanup: false });
                fresh
                    .apply(&bytes, v2)
                    .map_err(|e| ("full-state-not-appliable".to_string(), format!("gc {:?} replica {} v2={}: {}", asg, i, v2, e)))?;
                if fresh.dump() != rep.dump() || fresh.pending() {
                    return Err((
                        "rebuilt-from-gc-state-differs".to_string(),
                        format!(
                            "gc {:?} replica {}: shows {} but a document rebuilt from its full state (v2={}) shows {} pending={}",
                            asg,
                            i,
                            show_model(&rep.dump()),
                            v2,
                            show_model(&fresh.dump()),
                            fresh.pending()
                        ),
                    ));
                }
            }
        }
    }
    Ok(())
}

/// A gc'd replica answers a state-vector request of a peer that knows only part of what it knows
/// (the requester's clock may fall inside a collected, compacted run): the peer must end up exactly
/// where one-by-one delivery of the same operations leads.
fn check_sv_sync(m: &Multi) -> Result<(), (String, String)> {
    for (asg, w) in &m.others {
        for (si, src) in w.reps.iter().enumerate() {
            if !src.cfg.gc {
                continue;
            }
            for (di, dst) in w.reps.iter().enumerate() {
                if di == si || src.known.is_subset(&dst.known) {
                    continue;
                }
                for v2 in [false, true] {
                    let f = Replica::new(RCfg { client: 60, gc: false, utf16: false, cleanup: false });
                    let g = Replica::new(RCfg { client: 61, gc: false, utf16: false, cleanup: false });
                    let mut ok = true;
                    for i in &dst.known {
                        ok &= f.apply(&w.pool[*i].v1, false).is_ok();
                    }
                    let union: std::collections::BTreeSet<usize> = src.known.union(&dst.known).copied().collect();
                    for i in &union {
                        ok &= g.apply(&w.pool[*i].v1, false).is_ok();
                    }
                    if !ok || f.pending() || g.pending() {
                        continue;
                    }
                    let payload = {
                        let txn = src.doc.transact();
                        let sv = f.doc.transact().state_vector();
                        if v2 {
                            txn.encode_diff_v2(&sv)
                        } else {
                            txn.encode_diff_v1(&sv)
                        }
                    };
                    f.apply(&payload, v2)
                        .map_err(|e| ("sv-diff-of-gc-replica-not-appliable".to_string(), format!("gc {:?}: replica {} answering a peer that knows what replica {} knows (v2={}): {}", asg, si, di, v2, e)))?;
                    if f.dump() != g.dump() || f.sv() != g.sv() || f.pending() {
                        return Err((
                            "sv-diff-of-gc-replica-differs".to_string(),
                            format!(
                                "gc {:?}: a peer with the knowledge of replica {} that applies replica {}'s answer to its state vector (v2={}) shows {} sv {:?} pending={}, one-by-one delivery of the same operations gives {} sv {:?}",
                                asg,
                                di,
                                si,
                                v2,
                                show_model(&f.dump()),
                                f.sv(),
                                f.pending(),
                                show_model(&g.dump()),
                                g.sv()
                            ),
                        ));
                    }
                }
            }
        }
    }
    Ok(())
}

fn has_collected(w: &World) -> bool {
    w.reps.iter().any(|r| {
        r.cfg.gc
            && r.store_dump().clients.iter().any(|(_, l)| {
                l.iter().any(|b| b.kind == yrs::verif::BlockKind::GC || b.content_ref == 1)
            })
    })
}

fn enabled(c: &Cfg15, m: &Multi, nlocal: usize) -> Vec<Act> {
    let w = &m.reference;
    let mut out = Vec::new();
    if nlocal >= c.depth {
        return out;
    }
    for dst in 0..c.r {
        for src in 0..c.r {
            if dst != src && !w.reps[src].known.is_subset(&w.reps[dst].known) {
                out.push(Act::Sync { dst, src });
            }
        }
    }
    for r in 0..c.r {
        // forced gc is interesting when something is deleted
        let any_deleted = m.others.last().map(|(_, w)| {
            w.reps[r].store_dump().clients.iter().any(|(_, l)| l.iter().any(|b| b.deleted && b.content_ref != 1))
        });
        if any_deleted == Some(true) {
            out.push(Act::Gc { r });
        }
        for op in gen_ops(c.fam, &w.reps[r].dump(), w.nops, c.level) {
            out.push(Act::Local { r, op });
        }
    }
    out
}

fn dfs(ctx: &mut Ctx, c: &Cfg15, trace: &mut Vec<Act>, nlocal: usize, visited: &mut HashMap<u64, usize>, idx: &mut u64) {
    if ctx.out_of_time() {
        return;
    }
    let case = json!({"kind": "lockstep", "cfg": c, "trace": trace});
    let cj = || case.clone();
    let res = ctx.exec(&cj, |ctx| {
        ctx.count("transitions", trace.len() as u64 * (assignments(c.r).len() as u64 + 1));
        build(c, trace).and_then(|m| check_rebuild(&m).map(|_| m)).and_then(|m| check_sv_sync(&m).map(|_| m))
    });
    let m = match res {
        Some(Ok(m)) => m,
        Some(Err((class, msg))) => {
            ctx.violation("gc-invisible", &class, msg, cj());
            return;
        }
        None => return,
    };
    let key = hash_of(&(m.reference.key(), m.others.iter().map(|(_, w)| w.key()).collect::<Vec<_>>()));
    let remaining = c.depth - nlocal;
    match visited.get(&key) {
        Some(&r) if r >= remaining => {
            ctx.count("pruned_revisits", 1);
            return;
        }
        _ => {}
    }
    visited.insert(key, remaining);
    ctx.state(key);
    ctx.sample(cj);
    if m.others.iter().any(|(_, w)| has_collected(w)) {
        ctx.outcome(key);
    }
    let acts = enabled(c, &m, nlocal);
    drop(m);
    for a in acts {
        if trace.len() == 1 {
            *idx += 1;
            if !ctx.mine(*idx) {
                continue;
            }
        }
        let is_local = matches!(a, Act::Local { .. });
        trace.push(a);
        dfs(ctx, c, trace, nlocal + is_local as usize, visited, idx);
        trace.pop();
    }
}

// ------------------------------------------------------------------------------------------
// undo after gc

#[derive(Clone, Debug, Serialize, Deserialize, PartialEq, Eq, Hash)]
enum UA {
    Op(Op),
    Gc,
    Undo,
    Redo,
}

struct UW {
    rep: Replica,
    um: UndoManager,
    clock: Arc<AtomicU64>,
    nops: usize,
}

fn uw_new(fam: Fam, gc: bool) -> UW {
    let rep = Replica::new(RCfg { client: 1, gc, utf16: false, cleanup: true });
    let clock = Arc::new(AtomicU64::new(1000));
    let c2 = clock.clone();
    let mut o = yrs::undo::Options::default();
    o.capture_timeout_millis = 10;
    o.timestamp = Arc::new(move || c2.load(Ordering::SeqCst));
    let mut um = UndoManager::with_options(o);
    match fam {
        Fam::Arr => um.expand_scope(&rep.doc, &rep.roots.a),
        Fam::Map => um.expand_scope(&rep.doc, &rep.roots.m),
        Fam::Nest => {
            um.expand_scope(&rep.doc, &rep.roots.a);
            um.expand_scope(&rep.doc, &rep.roots.m);
        }
        _ => um.expand_scope(&rep.doc, &rep.roots.t),
    }
    UW { rep, um, clock, nops: 0 }
}

fn uw_step(w: &mut UW, a: &UA) -> Result<(), String> {
    w.clock.fetch_add(100, Ordering::SeqCst);
    match a {
        UA::Op(op) => {
            w.nops += 1;
            let mut txn = w.rep.doc.transact_mut();
            apply_real(&w.rep.roots, &mut txn, w.rep.cfg.kind(), op)
        }
        UA::Gc => {
            let mut txn = w.rep.doc.transact_mut_with("gc");
            txn.gc(None);
            Ok(())
        }
        UA::Undo => {
            w.um.undo_blocking();
            Ok(())
        }
        UA::Redo => {
            w.um.redo_blocking();
            Ok(())
        }
    }
}

fn ubuild(fam: Fam, trace: &[UA]) -> Result<(UW, UW), (String, String)> {
    let mut a = uw_new(fam, false);
    let mut b = uw_new(fam, true);
    for (k, act) in trace.iter().enumerate() {
        if !matches!(act, UA::Gc) {
            uw_step(&mut a, act).map_err(|e| ("step-fails".to_string(), format!("no-gc twin step {}: {}", k, e)))?;
        }
        uw_step(&mut b, act).map_err(|e| ("step-fails-with-gc".to_string(), format!("gc twin step {} ({:?}): {}", k, act, e)))?;
        let (da, db) = (a.rep.dump(), b.rep.dump());
        if da != db {
            return Err((
                match act {
                    UA::Undo => "undo-after-gc-differs".to_string(),
                    UA::Redo => "redo-after-gc-differs".to_string(),
                    UA::Gc => "forced-gc-changes-content".to_string(),
                    _ => "gc-changes-content".to_string(),
                },
                format!("after step {} ({:?}): without gc {} but with gc {}", k, act, show_model(&da), show_model(&db)),
            ));
        }
    }
    Ok((a, b))
}

fn udfs(ctx: &mut Ctx, fam: Fam, level: u8, max: usize, trace: &mut Vec<UA>, visited: &mut HashMap<u64, usize>, idx: &mut u64) {
    if ctx.out_of_time() {
        return;
    }
    let case = json!({"kind": "undo", "fam": fam, "level": level, "trace": trace});
    let cj = || case.clone();
    let res = ctx.exec(&cj, |ctx| {
        ctx.count("transitions", trace.len() as u64 * 2);
        ubuild(fam, trace)
    });
    let (a, b) = match res {
        Some(Ok(x)) => x,
        Some(Err((class, msg))) => {
            ctx.violation("gc-invisible", &class, msg, cj());
            return;
        }
        None => return,
    };
    let key = hash_of(&(a.rep.store_hash(), b.rep.store_hash(), a.um.undo_stack().len(), a.um.redo_stack().len(), b.um.undo_stack().len(), b.um.redo_stack().len()));
    let remaining = max - trace.len();
    match visited.get(&key) {
        Some(&r) if r >= remaining => return,
        _ => {}
    }
    visited.insert(key, remaining);
    ctx.state(key);
    if trace.iter().any(|x| matches!(x, UA::Gc)) && trace.iter().any(|x| matches!(x, UA::Undo)) {
        ctx.outcome(key);
    }
    if trace.len() >= max {
        return;
    }
    let mut acts: Vec<UA> = gen_ops(fam, &a.rep.dump(), a.nops, level).into_iter().map(UA::Op).collect();
    if a.um.can_undo() {
        acts.push(UA::Undo);
    }
    if a.um.can_redo() {
        acts.push(UA::Redo);
    }
    if !matches!(trace.last(), Some(UA::Gc)) && !trace.is_empty() {
        acts.push(UA::Gc);
    }
    drop((a, b));
    for act in acts {
        if trace.len() == 1 {
            *idx += 1;
            if !ctx.mine(*idx) {
                continue;
            }
        }
        trace.push(act);
        udfs(ctx, fam, level, max, trace, visited, idx);
        trace.pop();
    }
}

fn run(ctx: &mut Ctx) {
    let mut idx = 0u64;
    for c in bounds(ctx.tier) {
        let mut visited = HashMap::new();
        dfs(ctx, &c, &mut Vec::new(), 0, &mut visited, &mut idx);
    }
    let ub: Vec<(Fam, u8, usize)> = match ctx.tier {
        Tier::Quick => vec![(Fam::Txt, 0, 6), (Fam::Map, 0, 5), (Fam::Nest, 0, 4)],
        Tier::Thorough => vec![(Fam::Txt, 0, 8), (Fam::Txt, 1, 6), (Fam::Map, 1, 6), (Fam::Nest, 0, 5), (Fam::Arr, 1, 6), (Fam::Rtx, 0, 5)],
    };
    for (fam, level, max) in ub {
        let mut visited = HashMap::new();
        udfs(ctx, fam, level, max, &mut Vec::new(), &mut visited, &mut idx);
    }
}

fn replay(ctx: &mut Ctx, case: &Value) {
    let cj = || case.clone();
    if case["kind"] == "undo" {
        let fam: Fam = serde_json::from_value(case["fam"].clone()).unwrap_or(Fam::Txt);
        let trace: Vec<UA> = serde_json::from_value(case["trace"].clone()).unwrap_or_default();
        if let Some(Err((class, msg))) = ctx.exec(&cj, |_| ubuild(fam, &trace).map(|_| ())) {
            ctx.violation("gc-invisible", &class, msg, cj());
        }
    } else {
        let c: Cfg15 = match serde_json::from_value(case["cfg"].clone()) {
            Ok(c) => c,
            Err(e) => return ctx.machinery_error(format!("bad case: {}", e)),
        };
        let trace: Vec<Act> = serde_json::from_value(case["trace"].clone()).unwrap_or_default();
        if let Some(Err((class, msg))) = ctx.exec(&cj, |_| build(&c, &trace).and_then(|m| check_rebuild(&m))) {
            ctx.violation("gc-invisible", &class, msg, cj());
        }
    }
    let _: Option<Model> = None;
}
