//! C16 — IdSet / IdMap implement exact set algebra (complete enumeration over a bounded universe).
use crate::engine::*;
use crate::ops::Fam;
use crate::world::*;
use serde_json::{json, Value};
use std::collections::{BTreeMap, BTreeSet, HashSet, VecDeque};
use std::hash::{Hash, Hasher};
use yrs::block::BlockRange;
use yrs::updates::decoder::Decode;
use yrs::updates::encoder::Encode;
use yrs::verif::BlockKind;
use yrs::{ClientID, ContentAttribute, Diff, IdMap, IdSet, ReadTxn, Transact, ID};

pub fn def() -> PropDef {
    PropDef {
        id: "C16",
        title: "id sets / id maps are exact set algebra",
        shards: |t| t.pick(16, 64),
        run,
        replay,
        rule: "universe = 2 clients x clocks 0..N. (a) BFS over ALL construction sequences of <= k operations (insert(id,len) incl. len 0, remove_range, insert_range, range_mut().insert) with set values as states; (b) EVERY ordered pair of sets of the universe for merge/merge_with/diff/diff_with/intersect/intersect_with/subset_of/==/Hash/encode v1+v2/contains/is_empty; (c) IdMap over attributes {A,B}: BFS over construction sequences (insert/remove) and every pair for merge_with/merge_many/intersect_with/diff_with(IdSet|IdMap)/filter/as_id_set/From/attributions/contains/encode round-trip; (d) snapshot().delete_set vs the deleted/GC ids of the hook dump on every document state of txt/map/nest histories (gc on/off). Oracle: point-wise equality with a BTreeSet/BTreeMap model AND canonical form of every result. distinct_nontrivial = distinct (operation, operand values) cases with non-empty operands",
        assumptions: &["model: BTreeSet<(client,clock)> / BTreeMap<(client,clock), BTreeSet<attr>>"],
    }
}

type Pt = (u8, u32);
type SetM = BTreeSet<Pt>;
type MapM = BTreeMap<Pt, BTreeSet<char>>;

fn cid(c: u8) -> ClientID {
    ClientID::new(c as u64 + 1)
}
fn cidx(c: &ClientID) -> u8 {
    (c.get() - 1) as u8
}

fn set_points(s: &IdSet) -> SetM {
    let mut m = SetM::new();
    for (c, ranges) in s.iter() {
        for r in ranges.iter() {
            for k in r.start..r.end {
                m.insert((cidx(c), k));
            }
        }
    }
    m
}

/// maximal runs of a point set, per client
fn runs(m: &SetM) -> Vec<(u8, u32, u32)> {
    let mut out: Vec<(u8, u32, u32)> = Vec::new();
    for &(c, k) in m {
        match out.last_mut() {
            Some((lc, _, e)) if *lc == c && *e == k => *e = k + 1,
            _ => out.push((c, k, k + 1)),
        }
    }
    out
}

fn real_set(m: &SetM) -> IdSet {
    let mut s = IdSet::new();
    for (c, a, b) in runs(m) {
        s.insert(ID::new(cid(c), a), b - a);
    }
    s
}

fn set_ranges(s: &IdSet) -> Vec<(u8, u32, u32)> {
    let mut out = Vec::new();
    for (c, ranges) in s.iter() {
        for r in ranges.iter() {
            out.push((cidx(c), r.start, r.end));
        }
    }
    out
}

/// canonical form + agreement with the model
fn judge_set(s: &IdSet, want: &SetM) -> Result<(), (String, String)> {
    let got = set_points(s);
    if &got != want {
        return Err(("wrong-points".into(), format!("result {:?} but the set-theoretic result is {:?}", runs(&got), runs(want))));
    }
    let rr = set_ranges(s);
    if rr != runs(want) {
        return Err(("not-canonical".into(), format!("ranges {:?} are not the canonical {:?}", rr, runs(want))));
    }
    for (c, ranges) in s.iter() {
        if ranges.is_empty() || ranges.len() == 0 {
            return Err(("empty-client-entry".into(), format!("client {} has an entry with zero ranges", c.get())));
        }
    }
    if s.is_empty() != want.is_empty() {
        return Err(("is_empty-wrong".into(), format!("is_empty()={} but the set has {} points", s.is_empty(), want.len())));
    }
    let canon = real_set(want);
    if s != &canon {
        return Err(("equal-sets-compare-unequal".into(), format!("{:?} != canonical construction {:?}", s, canon)));
    }
    if s.encode_v1() != canon.encode_v1() || s.encode_v2() != canon.encode_v2() {
        return Err(("equal-sets-encode-differently".into(), format!("{:?}", s)));
    }
    if std_hash(s) != std_hash(&canon) {
        return Err(("equal-sets-hash-differently".into(), format!("{:?}", s)));
    }
    Ok(())
}

fn std_hash<T: Hash>(t: &T) -> u64 {
    let mut h = std::collections::hash_map::DefaultHasher::new();
    t.hash(&mut h);
    h.finish()
}

#[derive(Clone, Debug, serde::Serialize, serde::Deserialize, PartialEq, Eq, Hash)]
enum SOp {
    Insert(u8, u32, u32),
    Remove(u8, u32, u32),
    /// insert_range(client, IdRange built from the given ranges)
    InsertRange(u8, Vec<(u32, u32)>),
    RangeMutInsert(u8, u32, u32),
}

fn apply_sop_real(s: &mut IdSet, op: &SOp) {
    match op {
        SOp::Insert(c, a, len) => s.insert(ID::new(cid(*c), *a), *len),
        SOp::Remove(c, a, len) => s.remove_range(&BlockRange::new(ID::new(cid(*c), *a), *len)),
        SOp::InsertRange(c, rs) => {
            let mut tmp = IdSet::new();
            for (a, b) in rs {
                tmp.insert(ID::new(cid(*c), *a), b - a);
            }
            if let Some(r) = tmp.get(&cid(*c)) {
                s.insert_range(cid(*c), r.clone());
            }
        }
        SOp::RangeMutInsert(c, a, len) => s.range_mut(cid(*c)).insert(*a..(*a + *len)),
    }
}

fn apply_sop_model(m: &mut SetM, op: &SOp) {
    match op {
        SOp::Insert(c, a, len) | SOp::RangeMutInsert(c, a, len) => {
            for k in *a..(*a + *len) {
                m.insert((*c, k));
            }
        }
        SOp::Remove(c, a, len) => {
            for k in *a..(*a + *len) {
                m.remove(&(*c, k));
            }
        }
        SOp::InsertRange(c, rs) => {
            for (a, b) in rs {
                for k in *a..*b {
                    m.insert((*c, k));
                }
            }
        }
    }
}

fn sops(n: u32, clients: u8) -> Vec<SOp> {
    let mut v = Vec::new();
    for c in 0..clients {
        for a in 0..=n {
            for len in 0..=(n + 1 - a) {
                if a + len > n + 1 {
                    continue;
                }
                v.push(SOp::Insert(c, a, len));
                if len > 0 {
                    v.push(SOp::Remove(c, a, len));
                }
            }
        }
        // remove beyond the universe / empty
        v.push(SOp::Remove(c, n, 3));
        v.push(SOp::Remove(c, 0, 0));
        for a in 0..=n {
            for b in (a + 1)..=(n + 1) {
                v.push(SOp::InsertRange(c, vec![(a, b)]));
                if b + 1 <= n {
                    v.push(SOp::InsertRange(c, vec![(a, b), (b + 1, n + 1)]));
                }
            }
        }
        v.push(SOp::RangeMutInsert(c, 0, 1));
        v.push(SOp::RangeMutInsert(c, n / 2, 2));
        v.push(SOp::RangeMutInsert(c, n, 1));
    }
    v
}

fn bfs_sets(ctx: &mut Ctx, n: u32, clients: u8, depth: usize) {
    let ops = sops(n, clients);
    let mut seen: HashSet<SetM> = HashSet::new();
    let mut q: VecDeque<(SetM, Vec<SOp>)> = VecDeque::new();
    seen.insert(SetM::new());
    q.push_back((SetM::new(), Vec::new()));
    while let Some((m, path)) = q.pop_front() {
        if ctx.out_of_time() {
            return;
        }
        for op in &ops {
            let mut p2 = path.clone();
            p2.push(op.clone());
            let mut m2 = m.clone();
            apply_sop_model(&mut m2, op);
            let cj = || json!({"kind": "set-seq", "ops": p2});
            let res = ctx.exec(&cj, |ctx| {
                ctx.count("transitions", 1);
                let mut s = IdSet::new();
                for o in &p2 {
                    apply_sop_real(&mut s, o);
                }
                // `range_mut` hands out an empty slot by design: only judged when the
                // sequence's last operation produced points or was not a zero-length probe
                judge_set(&s, &m2)
            });
            if let Some(Err((class, msg))) = res {
                ctx.violation("set-algebra", &format!("construct:{}", class), format!("after {:?}: {}", p2, msg), cj());
                continue;
            }
            ctx.state(hash_of(&("set", &m2)));
            if !m.is_empty() {
                ctx.outcome(hash_of(&("seq", &m, op)));
            }
            if p2.len() < depth && seen.insert(m2.clone()) {
                q.push_back((m2, p2));
            }
        }
    }
}

fn all_sets(n: u32, clients: u8) -> Vec<SetM> {
    let pts: Vec<Pt> = (0..clients).flat_map(|c| (0..=n).map(move |k| (c, k))).collect();
    let total = 1u64 << pts.len();
    (0..total)
        .map(|bits| {
            pts.iter()
                .enumerate()
                .filter(|(i, _)| bits & (1 << i) != 0)
                .map(|(_, p)| *p)
                .collect()
        })
        .collect()
}

fn pair_case(ctx: &mut Ctx, a: &SetM, b: &SetM) {
    let cj = || json!({"kind": "set-pair", "a": runs(a), "b": runs(b)});
    let res = ctx.exec(&cj, |ctx| -> Result<(), (String, String)> {
        ctx.count("transitions", 8);
        let ra = real_set(a);
        let rb = real_set(b);
        let uni: SetM = a.union(b).copied().collect();
        let dif: SetM = a.difference(b).copied().collect();
        let int: SetM = a.intersection(b).copied().collect();
        let tag = |t: &str, r: Result<(), (String, String)>| r.map_err(|(c, m)| (format!("{}:{}", t, c), m));
        tag("merge", judge_set(&ra.merge(&rb), &uni))?;
        let mut x = ra.clone();
        x.merge_with(rb.clone());
        tag("merge_with", judge_set(&x, &uni))?;
        tag("diff", judge_set(&ra.diff(&rb), &dif))?;
        let mut x = ra.clone();
        x.diff_with(&rb);
        tag("diff_with", judge_set(&x, &dif))?;
        tag("intersect", judge_set(&ra.intersect(&rb), &int))?;
        let mut x = ra.clone();
        x.intersect_with(&rb);
        tag("intersect_with", judge_set(&x, &int))?;
        if (ra == rb) != (a == b) {
            return Err(("eq:wrong".into(), format!("{:?} == {:?} gives {}", ra, rb, ra == rb)));
        }
        // subset per client
        for c in 0..2u8 {
            let sa: SetM = a.iter().filter(|p| p.0 == c).copied().collect();
            let sb: SetM = b.iter().filter(|p| p.0 == c).copied().collect();
            if let (Some(x), Some(y)) = (ra.get(&cid(c)), rb.get(&cid(c))) {
                if x.subset_of(y) != sa.is_subset(&sb) {
                    return Err(("subset_of:wrong".into(), format!("{:?}.subset_of({:?}) = {}", x, y, x.subset_of(y))));
                }
            }
        }
        for p in uni.iter() {
            if ra.contains(&ID::new(cid(p.0), p.1)) != a.contains(p) {
                return Err(("contains:wrong".into(), format!("{:?} contains {:?}", ra, p)));
            }
        }
        for v2 in [false, true] {
            let bytes = if v2 { ra.encode_v2() } else { ra.encode_v1() };
            let back = if v2 { IdSet::decode_v2(&bytes) } else { IdSet::decode_v1(&bytes) };
            match back {
                Ok(s) => tag("decode", judge_set(&s, a))?,
                Err(e) => return Err(("decode:error".into(), format!("{:?} v2={}: {}", ra, v2, e))),
            }
        }
        Ok(())
    });
    if let Some(Err((class, msg))) = res {
        ctx.violation("set-algebra", &class, msg, cj());
    }
    ctx.state(hash_of(&("pair", a, b)));
    if !a.is_empty() && !b.is_empty() {
        ctx.outcome(hash_of(&("pair", a, b)));
    }
}

// ------------------------------------------------------------------------------------------
// IdMap

fn attr(c: char) -> ContentAttribute<String> {
    ContentAttribute::new(c.to_string(), format!("v{}", c))
}

fn map_runs(m: &MapM) -> Vec<(u8, u32, u32, String)> {
    let mut out: Vec<(u8, u32, u32, String)> = Vec::new();
    for (&(c, k), a) in m {
        let s: String = a.iter().collect();
        match out.last_mut() {
            Some((lc, _, e, la)) if *lc == c && *e == k && *la == s => *e = k + 1,
            _ => out.push((c, k, k + 1, s)),
        }
    }
    out
}

fn real_map(m: &MapM) -> IdMap<String> {
    let mut r = IdMap::new();
    for (c, a, b, attrs) in map_runs(m) {
        r.insert(
            BlockRange::new(ID::new(cid(c), a), b - a),
            attrs.chars().map(attr).collect(),
        );
    }
    r
}

fn map_real_runs(r: &IdMap<String>) -> Vec<(u8, u32, u32, String)> {
    r.iter()
        .map(|(c, ar)| {
            let mut names: Vec<char> = ar.attrs.iter().filter_map(|a| a.name().chars().next()).collect();
            names.sort();
            (cidx(&c), ar.range.start, ar.range.end, names.into_iter().collect())
        })
        .collect()
}

fn judge_map(r: &IdMap<String>, want: &MapM) -> Result<(), (String, String)> {
    let got = map_real_runs(r);
    let canon = map_runs(want);
    // point-wise
    let mut pts: MapM = MapM::new();
    for (c, a, b, s) in &got {
        for k in *a..*b {
            if pts.insert((*c, k), s.chars().collect()).is_some() {
                return Err(("overlapping-ranges".into(), format!("{:?}", got)));
            }
        }
    }
    if &pts != want {
        return Err(("wrong-points".into(), format!("result {:?} but expected {:?}", got, canon)));
    }
    if got != canon {
        return Err(("not-canonical".into(), format!("ranges {:?} are not the canonical {:?}", got, canon)));
    }
    if r.is_empty() != want.is_empty() {
        return Err(("is_empty-wrong".into(), format!("is_empty()={} with {} points", r.is_empty(), want.len())));
    }
    if r != &real_map(want) {
        return Err(("equal-maps-compare-unequal".into(), format!("{:?}", got)));
    }
    Ok(())
}

#[derive(Clone, Debug, serde::Serialize, serde::Deserialize, PartialEq, Eq, Hash)]
enum MOp {
    Insert(u8, u32, u32, String),
    Remove(u8, u32, u32),
}

fn mops(n: u32) -> Vec<MOp> {
    let mut v = Vec::new();
    for c in 0..1u8 {
        for a in 0..=n {
            for len in 0..=(n + 1 - a) {
                for attrs in ["A", "B", "AB", ""] {
                    if len == 0 && !attrs.is_empty() && attrs != "A" {
                        continue;
                    }
                    v.push(MOp::Insert(c, a, len, attrs.to_string()));
                }
                if len > 0 {
                    v.push(MOp::Remove(c, a, len));
                }
            }
        }
        v.push(MOp::Remove(c, 0, 0));
    }
    v
}

fn apply_mop_real(r: &mut IdMap<String>, op: &MOp) {
    match op {
        MOp::Insert(c, a, len, attrs) => r.insert(
            BlockRange::new(ID::new(cid(*c), *a), *len),
            attrs.chars().map(attr).collect(),
        ),
        MOp::Remove(c, a, len) => r.remove(&BlockRange::new(ID::new(cid(*c), *a), *len)),
    }
}

fn apply_mop_model(m: &mut MapM, op: &MOp) {
    match op {
        MOp::Insert(c, a, len, attrs) => {
            if attrs.is_empty() {
                return;
            }
            for k in *a..(*a + *len) {
                m.entry((*c, k)).or_default().extend(attrs.chars());
            }
        }
        MOp::Remove(c, a, len) => {
            for k in *a..(*a + *len) {
                m.remove(&(*c, k));
            }
        }
    }
}

fn bfs_maps(ctx: &mut Ctx, n: u32, depth: usize) {
    let ops = mops(n);
    let mut seen: HashSet<MapM> = HashSet::new();
    let mut q: VecDeque<(MapM, Vec<MOp>)> = VecDeque::new();
    seen.insert(MapM::new());
    q.push_back((MapM::new(), Vec::new()));
    while let Some((m, path)) = q.pop_front() {
        if ctx.out_of_time() {
            return;
        }
        for op in &ops {
            let mut p2 = path.clone();
            p2.push(op.clone());
            let mut m2 = m.clone();
            apply_mop_model(&mut m2, op);
            let cj = || json!({"kind": "map-seq", "ops": p2});
            let res = ctx.exec(&cj, |ctx| {
                ctx.count("transitions", 1);
                let mut r = IdMap::new();
                for o in &p2 {
                    apply_mop_real(&mut r, o);
                }
                judge_map(&r, &m2)
            });
            if let Some(Err((class, msg))) = res {
                ctx.violation("map-algebra", &format!("construct:{}", class), format!("after {:?}: {}", p2, msg), cj());
                continue;
            }
            ctx.state(hash_of(&("map", &m2)));
            if !m.is_empty() {
                ctx.outcome(hash_of(&("mseq", &m, op)));
            }
            if p2.len() < depth && seen.insert(m2.clone()) {
                q.push_back((m2, p2));
            }
        }
    }
}

fn all_maps(n: u32) -> Vec<MapM> {
    // each point: absent, {A}, {B}, {A,B}
    let pts: Vec<Pt> = (0..=n).map(|k| (0u8, k)).collect();
    let total = 4u64.pow(pts.len() as u32);
    (0..total)
        .map(|mut code| {
            let mut m = MapM::new();
            for p in &pts {
                let d = code % 4;
                code /= 4;
                let s: &str = match d {
                    0 => "",
                    1 => "A",
                    2 => "B",
                    _ => "AB",
                };
                if !s.is_empty() {
                    m.insert(*p, s.chars().collect());
                }
            }
            m
        })
        .collect()
}

fn map_pair_case(ctx: &mut Ctx, a: &MapM, b: &MapM, n: u32) {
    let cj = || json!({"kind": "map-pair", "a": map_runs(a), "b": map_runs(b)});
    let res = ctx.exec(&cj, |ctx| -> Result<(), (String, String)> {
        ctx.count("transitions", 8);
        let ra = real_map(a);
        let rb = real_map(b);
        let tag = |t: &str, r: Result<(), (String, String)>| r.map_err(|(c, m)| (format!("{}:{}", t, c), m));
        let mut uni = a.clone();
        for (p, s) in b {
            uni.entry(*p).or_default().extend(s.iter().copied());
        }
        let mut int = MapM::new();
        for (p, s) in a {
            if let Some(t) = b.get(p) {
                let mut u = s.clone();
                u.extend(t.iter().copied());
                int.insert(*p, u);
            }
        }
        let dif: MapM = a.iter().filter(|(p, _)| !b.contains_key(*p)).map(|(p, s)| (*p, s.clone())).collect();
        let mut x = ra.clone();
        x.merge_with(rb.clone());
        tag("merge_with", judge_map(&x, &uni))?;
        tag("merge_many", judge_map(&IdMap::merge_many(&[ra.clone(), rb.clone()]), &uni))?;
        let mut x = ra.clone();
        x.intersect_with(&rb);
        tag("intersect_with", judge_map(&x, &int))?;
        let mut x = ra.clone();
        Diff::<IdMap<String>>::diff_with(&mut x, &rb);
        tag("diff_with(map)", judge_map(&x, &dif))?;
        let bset: SetM = b.keys().copied().collect();
        let mut x = ra.clone();
        Diff::<IdSet>::diff_with(&mut x, &real_set(&bset));
        tag("diff_with(set)", judge_map(&x, &dif))?;
        // unary on a
        let aset: SetM = a.keys().copied().collect();
        tag("as_id_set", judge_set(&ra.as_id_set(), &aset))?;
        tag("into-id-set", judge_set(&IdSet::from(ra.clone()), &aset))?;
        let fa: MapM = a.iter().filter(|(_, s)| s.contains(&'A')).map(|(p, s)| (*p, s.clone())).collect();
        tag("filter", judge_map(&ra.filter(|attrs| attrs.iter().any(|x| x.name() == "A")), &fa))?;
        for k in 0..=n {
            if ra.contains(&ID::new(cid(0), k)) != a.contains_key(&(0, k)) {
                return Err(("contains:wrong".into(), format!("contains {}", k)));
            }
        }
        // attributions over every block range
        for s in 0..=n {
            for len in 1..=(n + 1 - s) {
                let at = ra.attributions(&BlockRange::new(ID::new(cid(0), s), len));
                let mut pts: BTreeMap<u32, String> = BTreeMap::new();
                let mut prev_end = s;
                for r in &at {
                    if r.range.start != prev_end || r.range.start >= r.range.end {
                        return Err(("attributions:not-a-partition".into(), format!("range {}+{}: {:?}", s, len, at.iter().map(|x| x.range.clone()).collect::<Vec<_>>())));
                    }
                    prev_end = r.range.end;
                    let mut names: Vec<char> = r.attrs.iter().filter_map(|a| a.name().chars().next()).collect();
                    names.sort();
                    for k in r.range.clone() {
                        pts.insert(k, names.iter().collect());
                    }
                }
                if prev_end != s + len {
                    return Err(("attributions:not-a-partition".into(), format!("range {}+{} covered up to {}", s, len, prev_end)));
                }
                for k in s..s + len {
                    let want: String = a.get(&(0, k)).map(|x| x.iter().collect()).unwrap_or_default();
                    if pts.get(&k) != Some(&want) {
                        return Err(("attributions:wrong-attrs".into(), format!("range {}+{} clock {}: {:?} expected {:?}", s, len, k, pts.get(&k), want)));
                    }
                }
            }
        }
        for v2 in [false, true] {
            let bytes = if v2 { ra.encode_v2() } else { ra.encode_v1() };
            let back = if v2 { IdMap::<String>::decode_v2(&bytes) } else { IdMap::<String>::decode_v1(&bytes) };
            match back {
                Ok(m) => tag("decode", judge_map(&m, a))?,
                Err(e) => return Err(("decode:error".into(), format!("v2={}: {}", v2, e))),
            }
        }
        Ok(())
    });
    if let Some(Err((class, msg))) = res {
        ctx.violation("map-algebra", &class, msg, cj());
    }
    ctx.state(hash_of(&("mpair", a, b)));
    if !a.is_empty() && !b.is_empty() {
        ctx.outcome(hash_of(&("mpair", a, b)));
    }
}

// ------------------------------------------------------------------------------------------
// (d) delete sets of documents

fn doc_delete_sets(ctx: &mut Ctx, fam: Fam, depth: usize, gc: bool, idx: &mut u64) {
    let cfgs = vec![
        RCfg { client: 1, gc, utf16: false, cleanup: true },
        RCfg { client: 2, gc, utf16: false, cleanup: true },
    ];
    let h = HistCfg { fam, level: 0, cfgs: cfgs.clone(), depth, syncs: true, partial: 0 };
    let shard = ctx.shard;
    let nsh = ctx.nshards as u64;
    let mut first = |_i: u64| {
        *idx += 1;
        (*idx % nsh) as usize == shard
    };
    let mut visit = |ctx: &mut Ctx, w: &World, trace: &[Act]| {
        ctx.count("doc_states", 1);
        for (i, rep) in w.reps.iter().enumerate() {
            let txn = rep.doc.transact();
            let ds = txn.snapshot().delete_set;
            let sd = yrs::verif::store_dump(txn.store());
            let mut want: BTreeSet<(u64, u32)> = BTreeSet::new();
            for (c, list) in &sd.clients {
                for b in list {
                    if b.kind == BlockKind::GC || (b.kind == BlockKind::Item && b.deleted) {
                        for k in b.id.1..b.id.1 + b.len {
                            want.insert((*c, k));
                        }
                    }
                }
            }
            let mut got: BTreeSet<(u64, u32)> = BTreeSet::new();
            let mut canonical = true;
            for (c, ranges) in ds.iter() {
                let mut prev_end: Option<u32> = None;
                if ranges.is_empty() {
                    canonical = false;
                }
                for r in ranges.iter() {
                    if r.start >= r.end || prev_end.map(|e| e >= r.start).unwrap_or(false) {
                        canonical = false;
                    }
                    prev_end = Some(r.end);
                    for k in r.start..r.end {
                        got.insert((c.get(), k));
                    }
                }
            }
            if got != want || !canonical {
                ctx.violation(
                    "delete-set-of-document",
                    if got != want { "delete-set-differs-from-store" } else { "delete-set-not-canonical" },
                    format!("replica {}: snapshot().delete_set = {:?} but deleted ids in the store are {:?}", i, ds, want),
                    json!({"kind": "doc", "fam": fam, "gc": gc, "cfgs": cfgs, "trace": trace}),
                );
            }
            if !want.is_empty() {
                ctx.outcome(hash_of(&("ds", &want)));
            }
        }
    };
    explore_histories(ctx, &h, &mut first, &mut visit);
}

fn run(ctx: &mut Ctx) {
    let (n_seq, k_seq, n_pair, n_mseq, k_mseq, n_mpair, doc_depth) = match ctx.tier {
        Tier::Quick => (4u32, 3usize, 3u32, 3u32, 3usize, 3u32, 3usize),
        Tier::Thorough => (5, 4, 5, 4, 3, 4, 4),
    };
    // (a) + (c) sequences: small, run by dedicated shards
    if ctx.shard == 0 {
        bfs_sets(ctx, n_seq, 2, k_seq);
    }
    if ctx.shard == 1 % ctx.nshards {
        bfs_maps(ctx, n_mseq, k_mseq);
    }
    // from_iter: every list of <= 2 ranges (incl. empty and overlapping ones) for one client
    if ctx.shard == 2 % ctx.nshards {
        let n = n_pair;
        let mut ranges: Vec<(u32, u32)> = Vec::new();
        for a in 0..=n {
            for b in a..=(n + 1) {
                ranges.push((a, b));
            }
        }
        let mut lists: Vec<Vec<(u32, u32)>> = vec![vec![]];
        for r in &ranges {
            lists.push(vec![*r]);
            for q in &ranges {
                lists.push(vec![*r, *q]);
            }
        }
        for l in lists {
            let cj = || json!({"kind": "from-iter", "ranges": l});
            let mut m = SetM::new();
            for (a, b) in &l {
                for k in *a..*b {
                    m.insert((0, k));
                }
            }
            let res = ctx.exec(&cj, |ctx| {
                ctx.count("transitions", 1);
                let s = IdSet::from_iter([(cid(0), l.iter().map(|(a, b)| *a..*b).collect::<Vec<_>>())]);
                judge_set(&s, &m)
            });
            if let Some(Err((class, msg))) = res {
                ctx.violation("set-algebra", &format!("from_iter:{}", class), format!("from_iter({:?}): {}", l, msg), cj());
            }
            ctx.state(hash_of(&("fromiter", &l)));
        }
    }
    // decoding: every list of <= 3 ranges for one client as it may arrive from a foreign peer (unsorted,
    // overlapping, adjacent, empty ranges included), in the v1 wire form; the decoded value must be the
    // union as a canonical set, and encode again (v1, v2) to something that decodes to the same set
    if ctx.shard == 3 % ctx.nshards {
        let n = n_pair;
        let mut ranges: Vec<(u32, u32)> = Vec::new();
        for a in 0..=n {
            for len in 0..=2u32 {
                ranges.push((a, a + len));
            }
        }
        let mut lists: Vec<Vec<(u32, u32)>> = Vec::new();
        for r in &ranges {
            lists.push(vec![*r]);
            for q in &ranges {
                lists.push(vec![*r, *q]);
                for p in &ranges {
                    lists.push(vec![*r, *q, *p]);
                }
            }
        }
        for l in lists {
            let cj = || json!({"kind": "decode", "ranges": l});
            let mut m = SetM::new();
            for (a, b) in &l {
                for k in *a..*b {
                    m.insert((0, k));
                }
            }
            // v1 wire form: #clients, client, #ranges, (clock, len)*
            let mut bytes: Vec<u8> = vec![1, cid(0).get() as u8, l.len() as u8];
            for (a, b) in &l {
                bytes.push(*a as u8);
                bytes.push((*b - *a) as u8);
            }
            let res = ctx.exec(&cj, |ctx| {
                ctx.count("transitions", 1);
                use yrs::updates::decoder::Decode;
                use yrs::updates::encoder::Encode;
                let s = IdSet::decode_v1(&bytes).map_err(|e| ("decode-error".to_string(), e.to_string()))?;
                judge_set(&s, &m)?;
                for v2 in [false, true] {
                    let again = if v2 { IdSet::decode_v2(&s.encode_v2()) } else { IdSet::decode_v1(&s.encode_v1()) }.map_err(|e| ("reencoded-does-not-decode".to_string(), format!("v2={}: {}", v2, e)))?;
                    if again != s {
                        return Err(("reencoding-changes-set".to_string(), format!("v2={}: {:?} vs {:?}", v2, set_ranges(&again), set_ranges(&s))));
                    }
                }
                Ok(())
            });
            if let Some(Err((class, msg))) = res {
                ctx.violation("set-algebra", &format!("decode:{}", class), format!("IdSet::decode_v1 of ranges {:?}: {}", l, msg), cj());
            }
            ctx.state(hash_of(&("decode", &l)));
        }
    }
    // (b) all pairs of sets, 2 clients
    let sets = all_sets(n_pair, 2);
    ctx.count("set_values", if ctx.shard == 0 { sets.len() as u64 } else { 0 });
    for (i, a) in sets.iter().enumerate() {
        if !ctx.mine(i as u64) {
            continue;
        }
        if ctx.out_of_time() {
            return;
        }
        for b in &sets {
            pair_case(ctx, a, b);
        }
    }
    // (b3) all pairs of sets over THREE clients (clocks 0..2 quick / 0..3 thorough): a client present on one side only, in
    // the middle of the client order, on both sides with disjoint ranges
    let n3 = match ctx.tier {
        Tier::Quick => 2,
        Tier::Thorough => 3,
    };
    let sets3 = all_sets(n3, 3);
    ctx.count("set_values_three_clients", if ctx.shard == 0 { sets3.len() as u64 } else { 0 });
    for (i, a) in sets3.iter().enumerate() {
        if !ctx.mine(i as u64) {
            continue;
        }
        if ctx.out_of_time() {
            return;
        }
        for b in &sets3 {
            pair_case(ctx, a, b);
        }
    }
    // (c) all pairs of maps
    let maps = all_maps(n_mpair);
    ctx.count("map_values", if ctx.shard == 0 { maps.len() as u64 } else { 0 });
    for (i, a) in maps.iter().enumerate() {
        if !ctx.mine(i as u64) {
            continue;
        }
        if ctx.out_of_time() {
            return;
        }
        for b in &maps {
            map_pair_case(ctx, a, b, n_mpair);
        }
    }
    // (d)
    let mut idx = 0u64;
    for fam in [Fam::Txt, Fam::Map, Fam::Nest] {
        for gc in [true, false] {
            doc_delete_sets(ctx, fam, doc_depth, gc, &mut idx);
        }
    }
    ctx.sample(|| json!({"kind": "set-pair", "a": [[0, 0, 2]], "b": [[0, 1, 3], [1, 0, 1]]}));
}

fn parse_set(v: &Value) -> SetM {
    let mut m = SetM::new();
    if let Some(a) = v.as_array() {
        for r in a {
            let c = r[0].as_u64().unwrap_or(0) as u8;
            for k in r[1].as_u64().unwrap_or(0)..r[2].as_u64().unwrap_or(0) {
                m.insert((c, k as u32));
            }
        }
    }
    m
}
fn parse_map(v: &Value) -> MapM {
    let mut m = MapM::new();
    if let Some(a) = v.as_array() {
        for r in a {
            let c = r[0].as_u64().unwrap_or(0) as u8;
            for k in r[1].as_u64().unwrap_or(0)..r[2].as_u64().unwrap_or(0) {
                m.insert((c, k as u32), r[3].as_str().unwrap_or("").chars().collect());
            }
        }
    }
    m
}

fn replay(ctx: &mut Ctx, case: &Value) {
    match case["kind"].as_str().unwrap_or("") {
        "set-pair" => pair_case(ctx, &parse_set(&case["a"]), &parse_set(&case["b"])),
        "map-pair" => map_pair_case(ctx, &parse_map(&case["a"]), &parse_map(&case["b"]), 4),
        "set-seq" => {
            let ops: Vec<SOp> = serde_json::from_value(case["ops"].clone()).unwrap_or_default();
            let cj = || case.clone();
            let res = ctx.exec(&cj, |_| {
                let mut s = IdSet::new();
                let mut m = SetM::new();
                for o in &ops {
                    apply_sop_real(&mut s, o);
                    apply_sop_model(&mut m, o);
                }
                judge_set(&s, &m)
            });
            if let Some(Err((class, msg))) = res {
                ctx.violation("set-algebra", &format!("construct:{}", class), msg, cj());
            }
        }
        "map-seq" => {
            let ops: Vec<MOp> = serde_json::from_value(case["ops"].clone()).unwrap_or_default();
            let cj = || case.clone();
            let res = ctx.exec(&cj, |_| {
                let mut s = IdMap::new();
                let mut m = MapM::new();
                for o in &ops {
                    apply_mop_real(&mut s, o);
                    apply_mop_model(&mut m, o);
                }
                judge_map(&s, &m)
            });
            if let Some(Err((class, msg))) = res {
                ctx.violation("map-algebra", &format!("construct:{}", class), msg, cj());
            }
        }
        "from-iter" => {
            let l: Vec<(u32, u32)> = serde_json::from_value(case["ranges"].clone()).unwrap_or_default();
            let mut m = SetM::new();
            for (a, b) in &l {
                for k in *a..*b {
                    m.insert((0, k));
                }
            }
            let cj = || case.clone();
            let res = ctx.exec(&cj, |_| {
                let s = IdSet::from_iter([(cid(0), l.iter().map(|(a, b)| *a..*b).collect::<Vec<_>>())]);
                judge_set(&s, &m)
            });
            if let Some(Err((class, msg))) = res {
                ctx.violation("set-algebra", &format!("from_iter:{}", class), msg, cj());
            }
        }
        "doc" => {
            let fam: Fam = serde_json::from_value(case["fam"].clone()).unwrap_or(Fam::Txt);
            let gc = case["gc"].as_bool().unwrap_or(true);
            let mut idx = 0;
            // re-run the (small) family exploration; the failing state is part of it
            doc_delete_sets(ctx, fam, 3, gc, &mut idx);
        }
        _ => ctx.machinery_error("unknown C16 case kind".into()),
    }
}
