//! C17 — all read paths agree with each other.
use super::conv::*;
use crate::engine::*;
use crate::ops::Fam;
use crate::reads::*;
use crate::world::*;
use serde_json::Value;
use yrs::Transact;

pub fn def() -> PropDef {
    PropDef {
        id: "C17",
        title: "all read paths agree",
        shards: |t| t.pick(48, 192),
        run,
        replay,
        rule: "every replica state visited by C01-style histories (all families incl. nested types, unicode text, rich text; Bytes and Utf16 offsets; gc on/off) and by every delivery order of their update pools (subset lattice, incl. states with stashed updates); at each state every live type is read through all public accessors (len/iter/get/to_json, get_string/diff/len, keys/values/iter/contains_key/get/to_json, xml children/first_child/get/siblings/parent/successors/rendered string parsed back) and the answers are compared pairwise. distinct_nontrivial = distinct non-empty visible document states checked",
        assumptions: &[
            "types are read through the API of the kind they were created as",
            "rendered XML is parsed by a 100-line reader that treats <b>/<i> as formatting (the alphabets use element tags e<k> only)",
        ],
    }
}

fn rcu(client: u64, gc: bool, utf16: bool) -> RCfg {
    RCfg {
        client,
        gc,
        utf16,
        cleanup: true,
    }
}

pub fn bounds(tier: Tier) -> Vec<ConvBound> {
    let mk = |fam, level, cfgs: Vec<RCfg>, depth, budget| ConvBound {
        fam,
        level,
        cfgs,
        depth,
        budget,
        kinds: K_RELAY | K_MERGE,
        observers: vec![obs(true)],
        authors_receive: true,
        min_pool: 2,
    };
    match tier {
        Tier::Quick => vec![
            mk(Fam::Txt, 1, vec![rcu(1, true, false), rcu(2, true, true)], 3, 0),
            mk(Fam::Uni, 0, vec![rcu(1, true, true), rcu(2, false, false)], 3, 0),
            mk(Fam::Rtx, 0, vec![rcu(1, true, false), rcu(2, true, true)], 3, 0),
            // shared types embedded in a text (one unit each), deletion ranges over them
            mk(Fam::Rtx, 4, vec![rcu(1, true, false), rcu(2, true, true)], 3, 0),
            mk(Fam::Arr, 1, vec![rcu(1, true, false), rcu(2, false, false)], 3, 0),
            mk(Fam::Map, 1, vec![rcu(1, true, false), rcu(2, false, false)], 3, 0),
            mk(Fam::Xml, 0, vec![rcu(1, true, false), rcu(2, true, false)], 3, 0),
            mk(Fam::Nest, 0, vec![rcu(1, true, false), rcu(2, false, false)], 3, 0),
        ],
        Tier::Thorough => vec![
            mk(Fam::Txt, 1, vec![rcu(1, true, false), rcu(2, true, true)], 4, 1),
            mk(Fam::Uni, 1, vec![rcu(1, true, true), rcu(2, false, false)], 3, 1),
            mk(Fam::Uni, 0, vec![rcu(1, true, true), rcu(2, false, false)], 4, 0),
            mk(Fam::Rtx, 1, vec![rcu(1, true, false), rcu(2, true, true)], 3, 1),
            mk(Fam::Rtx, 0, vec![rcu(1, true, false), rcu(2, true, true)], 4, 0),
            mk(Fam::Rtx, 4, vec![rcu(1, true, false), rcu(2, true, true)], 4, 0),
            mk(Fam::Arr, 1, vec![rcu(1, true, false), rcu(2, false, false)], 4, 1),
            mk(Fam::Map, 2, vec![rcu(1, true, false), rcu(2, false, false)], 4, 0),
            mk(Fam::Xml, 1, vec![rcu(1, true, false), rcu(2, true, false)], 3, 1),
            mk(Fam::Xml, 0, vec![rcu(1, true, false), rcu(2, true, false)], 4, 0),
            mk(Fam::Nest, 1, vec![rcu(1, true, false), rcu(2, false, false)], 3, 1),
            mk(Fam::Nest, 0, vec![rcu(1, true, false), rcu(2, false, false)], 4, 0),
        ],
    }
}

#[derive(Default)]
pub struct C17Monitor;

pub fn check_replica(ctx: &mut Ctx, rep: &Replica, whence: &str, case: &dyn Fn() -> Value) {
    let txn = rep.doc.transact();
    let mut errs: Errs = Vec::new();
    for c in ['t', 'a', 'm', 'x'] {
        let o = rep.roots.root_out(c);
        check_out(&txn, &o, rep.cfg.kind(), &c.to_string(), &mut errs);
    }
    drop(txn);
    let d = rep.dump();
    if d.values().any(|n| n.show().len() > 4) {
        ctx.outcome(hash_of(&d));
    }
    for (class, msg) in errs {
        ctx.violation("read-agreement", &class, format!("{}: {}", whence, msg), case());
    }
}

impl Monitor for C17Monitor {
    fn history_state(&mut self, ctx: &mut Ctx, w: &World, _trace: &[Act], case: &dyn Fn() -> Value) {
        for (i, rep) in w.reps.iter().enumerate() {
            check_replica(ctx, rep, &format!("replica {} (history state)", i), case);
        }
    }
    fn node(&mut self, ctx: &mut Ctx, _pool: &[Upd], node: &LatticeNode, case: &dyn Fn() -> Value) {
        check_replica(ctx, node.recv.rep(), &format!("receiver after path {:?}", node.path), case);
    }
}

fn run(ctx: &mut Ctx) {
    let b = bounds(ctx.tier);
    let mut mon = C17Monitor::default();
    run_conv(ctx, &b, &mut mon);
}

fn replay(ctx: &mut Ctx, case: &Value) {
    let b = bounds(Tier::Quick);
    let mut mon = C17Monitor::default();
    replay_case(ctx, case, &mut mon, &b[0]);
}
