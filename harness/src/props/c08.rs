//! C08 — document-free update algebra agrees with applying updates.
use super::conv::{rc, show_model};
use crate::engine::*;
use crate::model::*;
use crate::ops::*;
use crate::world::*;
use serde_json::{json, Value};
use std::collections::{BTreeMap, HashSet};
use yrs::updates::decoder::Decode;
use yrs::updates::encoder::Encode;
use yrs::verif::BlockKind;
use yrs::{ReadTxn, StateVector, Transact, Update};

pub fn def() -> PropDef {
    PropDef {
        id: "C08",
        title: "document-free update algebra",
        shards: |t| t.pick(48, 192),
        run,
        replay,
        rule: "update multisets taken from real histories (every distinct pool of C01-style histories incl. gc'd authors and out-of-order deliveries) extended with full-state exports and diffs of the authors (so overlapping, duplicated, GC- and Skip-carrying payloads occur); for EVERY ordered selection of <= 3 items (repetition allowed): (a) apply(merge_updates(sel)) vs applying sel one by one on an empty document and on each author's end state: same content, state vector, pending-ness; (b) every permutation and both bracketings of the merge give the same effect; (c) for documents X reached by applying a prefix: applying diff_updates(u, sv_X) to X == applying u to X; (d) encode_state_vector_from_update(u) == sv of an empty doc after u when u is gap-free from clock 0; all in v1 and v2, and v1-merge vs v2-merge agree. distinct_nontrivial = distinct selections (by payload bytes) with >= 2 different items",
        assumptions: &["the effect of an update is what the public read API, state_vector and has_missing_updates show"],
    }
}

#[derive(Clone)]
struct Item {
    v1: Vec<u8>,
    v2: Vec<u8>,
    label: String,
}

fn bounds(tier: Tier) -> Vec<(Fam, u8, Vec<RCfg>, usize, usize)> {
    // authors without automatic formatting clean-up: its deletions are operations of the
    // receiver, not part of the algebra (see C06/C07)
    let rc = |c: u64, gc: bool| RCfg { client: c, gc, utf16: false, cleanup: false };
    match tier {
        Tier::Quick => vec![
            (Fam::Txt, 0, vec![rc(1, true), rc(2, true)], 3, 0),
            (Fam::Txt, 0, vec![rc(1, true)], 4, 0),
            (Fam::Map, 1, vec![rc(1, true), rc(2, false)], 3, 0),
            // collected subtrees: GC ranges of several units inside the payloads (a state vector may fall inside one)
            (Fam::Nest, 0, vec![rc(1, true)], 3, 0),
        ],
        Tier::Thorough => vec![
            (Fam::Txt, 1, vec![rc(1, true), rc(2, true)], 3, 1),
            (Fam::Txt, 0, vec![rc(1, true), rc(2, false)], 4, 0),
            (Fam::Txt, 0, vec![rc(1, true)], 5, 0),
            (Fam::Map, 1, vec![rc(1, true), rc(2, false)], 4, 0),
            (Fam::Rtx, 0, vec![rc(1, true), rc(2, true)], 3, 0),
            (Fam::Nest, 0, vec![rc(1, true), rc(2, true)], 3, 0),
            (Fam::Arr, 1, vec![rc(1, true), rc(2, true)], 3, 0),
        ],
    }
}

fn run(ctx: &mut Ctx) {
    let mut idx = 0u64;
    for (fam, level, cfgs, depth, partial) in bounds(ctx.tier) {
        let h = HistCfg { fam, level, cfgs: cfgs.clone(), depth, syncs: cfgs.len() > 1, partial };
        let mut pools: HashSet<u64> = HashSet::new();
        let shard = ctx.shard;
        let nsh = ctx.nshards as u64;
        let mut first = |_i: u64| {
            idx += 1;
            (idx % nsh) as usize == shard
        };
        let mut visit = |ctx: &mut Ctx, w: &World, trace: &[Act]| {
            if w.pool.len() < 2 {
                return;
            }
            // the pool + the authors' layouts determine every item
            if !pools.insert(w.key()) {
                return;
            }
            ctx.count(&format!("pools_{}", fam.name()), 1);
            check_pool(ctx, &cfgs, trace, w);
        };
        explore_histories(ctx, &h, &mut first, &mut visit);
    }
}

fn replay(ctx: &mut Ctx, case: &Value) {
    let cfgs: Vec<RCfg> = match serde_json::from_value(case["cfgs"].clone()) {
        Ok(c) => c,
        Err(e) => return ctx.machinery_error(format!("bad case: {}", e)),
    };
    let trace: Vec<Act> = match serde_json::from_value(case["trace"].clone()) {
        Ok(c) => c,
        Err(e) => return ctx.machinery_error(format!("bad case: {}", e)),
    };
    match World::build(&cfgs, &trace) {
        Ok(w) => {
            if std::env::var("VERIF_TRACE").is_ok() {
                let items = items_of(&w);
                let show = |b: &[u8]| match Update::decode_v1(b) {
                    Ok(u) => {
                        let d = yrs::verif::update_dump(&u);
                        format!(
                            "{:?} ds={:?}",
                            d.blocks.iter().map(|(c, l)| (*c, l.iter().map(|b| format!("{:?}[{}+{}]{}{}", b.kind, b.id.1, b.len, b.content, b.origin.map(|o| format!(" o={}:{}", o.0, o.1)).unwrap_or_default())).collect::<Vec<_>>())).collect::<Vec<_>>(),
                            d.delete_set
                        )
                    }
                    Err(e) => format!("undecodable: {}", e),
                };
                for it in &items {
                    eprintln!("item {}: {}", it.label, show(&it.v1));
                }
                if let Some(sel) = case["selection"].as_array() {
                    let picked: Vec<&Item> = sel.iter().filter_map(|l| items.iter().find(|i| Some(i.label.as_str()) == l.as_str())).collect();
                    if let Ok(m) = merge(&picked, false) {
                        eprintln!("merged: {}", show(&m));
                    }
                    {
                        let r = fresh();
                        for it in &picked {
                            eprintln!("applying {} ...", it.label);
                            let res = std::panic::catch_unwind(std::panic::AssertUnwindSafe(|| r.apply(&it.v1, false)));
                            eprintln!("  -> {:?}\n{}", res.map_err(|_| "PANIC"), show_store(&r.store_dump()));
                        }
                    }
                    if picked.len() == 3 {
                        if let Ok(ab) = merge(&picked[0..2], false) {
                            eprintln!("ab: {}", show(&ab));
                            if let Ok(x) = yrs::merge_updates_v1([&ab, &picked[2].v1]) {
                                eprintln!("(ab)c: {}", show(&x));
                            }
                        }
                        if let Ok(bc) = merge(&picked[1..3], false) {
                            eprintln!("bc: {}", show(&bc));
                            if let Ok(x) = yrs::merge_updates_v1([&picked[0].v1, &bc]) {
                                eprintln!("a(bc): {}", show(&x));
                            }
                        }
                    }
                }
            }
            check_pool(ctx, &cfgs, &trace, &w)
        }
        Err(e) => ctx.machinery_error(format!("history does not build: {}", e)),
    }
}

fn items_of(w: &World) -> Vec<Item> {
    let mut items: Vec<Item> = w
        .pool
        .iter()
        .enumerate()
        .map(|(i, u)| Item { v1: u.v1.clone(), v2: u.v2.clone(), label: format!("u{}", i) })
        .collect();
    // extras: full states and mutual diffs of the authors (overlap, GC, Skip, pending)
    for (i, r) in w.reps.iter().enumerate() {
        let txn = r.doc.transact();
        items.push(Item {
            v1: txn.encode_state_as_update_v1(&StateVector::default()),
            v2: txn.encode_state_as_update_v2(&StateVector::default()),
            label: format!("full{}", i),
        });
        for (j, o) in w.reps.iter().enumerate() {
            if i != j {
                let sv = o.doc.transact().state_vector();
                items.push(Item {
                    v1: txn.encode_diff_v1(&sv),
                    v2: txn.encode_diff_v2(&sv),
                    label: format!("diff{}vs{}", i, j),
                });
            }
        }
    }
    // drop exact duplicates and trivial empties beyond one
    let mut seen = HashSet::new();
    items.retain(|it| seen.insert(it.v1.clone()));
    items.truncate(7);
    items
}

#[derive(PartialEq, Eq, Clone, Debug)]
struct Effect {
    dump: Model,
    sv: BTreeMap<u64, u32>,
    pending: bool,
}

fn effect(r: &Replica) -> Effect {
    Effect { dump: r.dump(), sv: r.sv(), pending: r.pending() }
}

fn show_effect(e: &Effect) -> String {
    format!("{} sv={:?} pending={}", show_model(&e.dump), e.sv, e.pending)
}

fn fresh() -> Replica {
    Replica::new(RCfg { client: 700, gc: true, utf16: false, cleanup: false })
}

/// once every pool update is delivered, are all replicas equal and free of pending updates?
fn heals(reps: &[Replica], items: &[Item]) -> bool {
    for r in reps {
        for it in items.iter().filter(|i| i.label.starts_with('u')) {
            let _ = r.apply(&it.v1, false);
        }
    }
    let e0 = effect(&reps[0]);
    !e0.pending && reps.iter().all(|r| effect(r) == e0)
}

fn merge(sel: &[&Item], v2: bool) -> Result<Vec<u8>, String> {
    if v2 {
        yrs::merge_updates_v2(sel.iter().map(|i| &i.v2)).map_err(|e| e.to_string())
    } else {
        yrs::merge_updates_v1(sel.iter().map(|i| &i.v1)).map_err(|e| e.to_string())
    }
}

/// is the update gap-free from clock 0 for every client it mentions (no Skip, contiguous)?
fn gap_free_from_zero(bytes: &[u8]) -> Option<bool> {
    let u = Update::decode_v1(bytes).ok()?;
    let d = yrs::verif::update_dump(&u);
    for (_, blocks) in &d.blocks {
        let mut next = 0u32;
        for b in blocks {
            if b.kind == BlockKind::Skip || b.id.1 != next {
                return Some(false);
            }
            next = b.id.1 + b.len;
        }
    }
    Some(true)
}

fn check_pool(ctx: &mut Ctx, cfgs: &[RCfg], trace: &[Act], w: &World) {
    let items = items_of(w);
    let n = items.len();
    let base_case = json!({"cfgs": cfgs, "trace": trace});
    // all ordered selections of length 1..=3 with repetition
    let mut sels: Vec<Vec<usize>> = Vec::new();
    for a in 0..n {
        sels.push(vec![a]);
        for b in 0..n {
            sels.push(vec![a, b]);
            for c in 0..n {
                if a == b && b == c {
                    continue;
                }
                sels.push(vec![a, b, c]);
            }
        }
    }
    // memo: effect of the merged form per sorted multiset (for the permutation law)
    let mut by_multiset: BTreeMap<(Vec<usize>, bool), (Effect, Vec<usize>)> = BTreeMap::new();
    for sel in &sels {
        if ctx.out_of_time() {
            return;
        }
        let labels: Vec<&str> = sel.iter().map(|i| items[*i].label.as_str()).collect();
        let case = json!({"cfgs": cfgs, "trace": trace, "selection": labels});
        let cj = || case.clone();
        let picked: Vec<&Item> = sel.iter().map(|i| &items[*i]).collect();
        let distinct: HashSet<usize> = sel.iter().copied().collect();
        if distinct.len() >= 2 {
            ctx.outcome(hash_of(&picked.iter().map(|i| &i.v1).collect::<Vec<_>>()));
        }
        for v2 in [false, true] {
            let res = ctx.exec(&cj, |ctx| -> Result<Effect, (String, String)> {
                ctx.count("transitions", sel.len() as u64 * 2 + 1);
                let merged = merge(&picked, v2).map_err(|e| ("merge-fails".to_string(), format!("merge_updates({:?}, v2={}) failed: {}", labels, v2, e)))?;
                let a = fresh();
                a.apply(&merged, v2).map_err(|e| ("merged-not-appliable".to_string(), format!("merge of {:?} (v2={}): {}", labels, v2, e)))?;
                let b = fresh();
                for it in &picked {
                    b.apply(if v2 { &it.v2 } else { &it.v1 }, v2)
                        .map_err(|e| ("input-not-appliable".to_string(), format!("{} (v2={}): {}", it.label, v2, e)))?;
                }
                let (ea, eb) = (effect(&a), effect(&b));
                if ea != eb {
                    let gapped = ea.pending && eb.pending;
                    // does the difference vanish once the withheld updates are delivered?
                    let mut healed = false;
                    if gapped {
                        for it in items.iter().filter(|i| i.label.starts_with('u')) {
                            let _ = a.apply(&it.v1, false);
                            let _ = b.apply(&it.v1, false);
                        }
                        let (fa, fb) = (effect(&a), effect(&b));
                        healed = fa == fb && !fa.pending;
                    }
                    return Err((
                        if healed {
                            "merge-vs-sequential-transient-difference-while-gap-open".to_string()
                        } else if ea.pending || eb.pending {
                            "merge-vs-sequential-differs-with-gap".to_string()
                        } else {
                            "merge-vs-sequential-differs".to_string()
                        },
                        format!("selection {:?} v2={}: merged gives {} but one-by-one gives {}", labels, v2, show_effect(&ea), show_effect(&eb)),
                    ));
                }
                // (d) state vector of the merged update
                if !ea.pending && gap_free_from_zero(&if v2 { yrs::merge_updates_v1(picked.iter().map(|i| &i.v1)).unwrap_or_default() } else { merged.clone() }) == Some(true) {
                    let svb = if v2 {
                        yrs::encode_state_vector_from_update_v2(&merged).and_then(|b| StateVector::decode_v2(&b))
                    } else {
                        yrs::encode_state_vector_from_update_v1(&merged).and_then(|b| StateVector::decode_v1(&b))
                    }
                    .map_err(|e| ("sv-from-update-fails".to_string(), e.to_string()))?;
                    let got = sv_map(&svb);
                    if got != ea.sv {
                        return Err((
                            "sv-from-update-differs".to_string(),
                            format!("selection {:?} v2={}: encode_state_vector_from_update = {:?} but an empty doc after it has {:?}", labels, v2, got, ea.sv),
                        ));
                    }
                }
                Ok(ea)
            });
            match res {
                Some(Ok(e)) => {
                    // (b) argument order must not matter
                    let mut ms = sel.clone();
                    ms.sort();
                    match by_multiset.get(&(ms.clone(), v2)) {
                        Some((e0, sel0)) if *e0 != e => {
                            let mut healed = false;
                            if e.pending && e0.pending {
                                let p0: Vec<&Item> = sel0.iter().map(|i| &items[*i]).collect();
                                if let (Ok(m0), Ok(m1)) = (merge(&p0, v2), merge(&picked, v2)) {
                                    let (r0, r1) = (fresh(), fresh());
                                    if r0.apply(&m0, v2).is_ok() && r1.apply(&m1, v2).is_ok() {
                                        healed = heals(&[r0, r1], &items);
                                    }
                                }
                            }
                            ctx.violation(
                                "algebra",
                                if healed { "merge-order-transient-difference-while-gap-open" } else if e.pending || e0.pending { "merge-order-dependent-with-gap" } else { "merge-order-dependent" },
                                format!(
                                    "merge({:?}) gives {} but merge({:?}) gives {} (v2={})",
                                    labels,
                                    show_effect(&e),
                                    sel0.iter().map(|i| items[*i].label.as_str()).collect::<Vec<_>>(),
                                    show_effect(e0),
                                    v2
                                ),
                                cj(),
                            );
                        }
                        Some(_) => {}
                        None => {
                            by_multiset.insert((ms, v2), (e, sel.clone()));
                        }
                    }
                }
                Some(Err((class, msg))) => ctx.violation("algebra", &class, msg, cj()),
                None => {}
            }
        }
        // v1-merge vs v2-merge
        if let (Some((e1, _)), Some((e2, _))) = ({
            let mut ms = sel.clone();
            ms.sort();
            (by_multiset.get(&(ms.clone(), false)), by_multiset.get(&(ms, true)))
        }) {
            if e1 != e2 {
                ctx.violation("algebra", "v1-merge-vs-v2-merge", format!("selection {:?}: v1 {} v2 {}", labels, show_effect(e1), show_effect(e2)), cj());
            }
        }
        // bracketing for triples
        if sel.len() == 3 {
            for v2 in [false, true] {
                let res = ctx.exec(&cj, |_| -> Result<(), (String, String)> {
                    let e = |x: String| ("merge-fails".to_string(), x);
                    let ab = merge(&picked[0..2], v2).map_err(e)?;
                    let bc = merge(&picked[1..3], v2).map_err(e)?;
                    let c = if v2 { &picked[2].v2 } else { &picked[2].v1 };
                    let a = if v2 { &picked[0].v2 } else { &picked[0].v1 };
                    let left = if v2 { yrs::merge_updates_v2([&ab, c]) } else { yrs::merge_updates_v1([&ab, c]) }.map_err(|x| e(x.to_string()))?;
                    let right = if v2 { yrs::merge_updates_v2([a, &bc]) } else { yrs::merge_updates_v1([a, &bc]) }.map_err(|x| e(x.to_string()))?;
                    let flat = merge(&picked, v2).map_err(e)?;
                    let mut effs = Vec::new();
                    let mut reps = Vec::new();
                    for (name, bytes) in [("(ab)c", &left), ("a(bc)", &right), ("abc", &flat)] {
                        let r = fresh();
                        r.apply(bytes, v2).map_err(|x| ("merged-not-appliable".to_string(), format!("{}: {}", name, x)))?;
                        effs.push((name, effect(&r)));
                        reps.push(r);
                    }
                    if effs[0].1 != effs[2].1 || effs[1].1 != effs[2].1 {
                        let healed = effs.iter().all(|x| x.1.pending) && heals(&reps, &items);
                        return Err((
                            if healed { "merge-nesting-transient-difference-while-gap-open".to_string() } else if effs.iter().any(|x| x.1.pending) { "merge-nesting-dependent-with-gap".to_string() } else { "merge-nesting-dependent".to_string() },
                            format!(
                                "selection {:?} v2={}: (ab)c {} | a(bc) {} | abc {}",
                                labels,
                                v2,
                                show_effect(&effs[0].1),
                                show_effect(&effs[1].1),
                                show_effect(&effs[2].1)
                            ),
                        ));
                    }
                    Ok(())
                });
                if let Some(Err((class, msg))) = res {
                    ctx.violation("algebra", &class, msg, cj());
                }
            }
        }
        // (c) diff_updates against the state vector of the document after a prefix
        if sel.len() >= 2 {
            let (prefix, u) = sel.split_at(sel.len() - 1);
            let u = &items[u[0]];
            for v2 in [false, true] {
                let res = ctx.exec(&cj, |_| -> Result<(), (String, String)> {
                    let mk = || -> Result<Replica, (String, String)> {
                        let r = fresh();
                        for i in prefix {
                            let it = &items[*i];
                            r.apply(if v2 { &it.v2 } else { &it.v1 }, v2)
                                .map_err(|e| ("input-not-appliable".to_string(), e))?;
                        }
                        Ok(r)
                    };
                    let x1 = mk()?;
                    let x2 = mk()?;
                    let sv = x1.doc.transact().state_vector();
                    let d = if v2 {
                        yrs::diff_updates_v2(&u.v2, &sv.encode_v2())
                    } else {
                        yrs::diff_updates_v1(&u.v1, &sv.encode_v1())
                    }
                    .map_err(|e| ("diff-fails".to_string(), format!("diff_updates({}, sv) failed: {}", u.label, e)))?;
                    x1.apply(&d, v2).map_err(|e| ("diff-not-appliable".to_string(), e))?;
                    x2.apply(if v2 { &u.v2 } else { &u.v1 }, v2).map_err(|e| ("input-not-appliable".to_string(), e))?;
                    let (e1, e2) = (effect(&x1), effect(&x2));
                    if e1 != e2 {
                        return Err((
                            if e1.pending || e2.pending { "diff-vs-full-differs-with-gap".to_string() } else { "diff-vs-full-differs".to_string() },
                            format!(
                                "after {:?}: applying diff_updates({}, sv) gives {} but applying {} gives {} (v2={})",
                                prefix.iter().map(|i| items[*i].label.as_str()).collect::<Vec<_>>(),
                                u.label,
                                show_effect(&e1),
                                u.label,
                                show_effect(&e2),
                                v2
                            ),
                        ));
                    }
                    Ok(())
                });
                if let Some(Err((class, msg))) = res {
                    ctx.violation("algebra", &class, msg, cj());
                }
            }
        }
    }
    // nested inputs: merges of two pool updates (non-adjacent ones carry an internal gap) used as
    // inputs of a further merge, against one-by-one application
    {
        let pool_items: Vec<&Item> = items.iter().filter(|i| i.label.starts_with('u')).collect();
        let mut derived: Vec<Item> = Vec::new();
        for i in 0..pool_items.len() {
            for j in (i + 1)..pool_items.len() {
                if let (Ok(v1), Ok(v2)) = (merge(&[pool_items[i], pool_items[j]], false), merge(&[pool_items[i], pool_items[j]], true)) {
                    derived.push(Item { v1, v2, label: format!("m({},{})", pool_items[i].label, pool_items[j].label) });
                }
            }
        }
        let all: Vec<&Item> = derived.iter().chain(pool_items.iter().copied()).collect();
        for x in &derived {
            for y in &all {
                if ctx.out_of_time() {
                    return;
                }
                for v2 in [false, true] {
                    let labels = vec![x.label.clone(), y.label.clone()];
                    let case = json!({"cfgs": cfgs, "trace": trace, "nested_selection": labels});
                    let cj = || case.clone();
                    let res = ctx.exec(&cj, |ctx| -> Result<(), (String, String)> {
                        ctx.count("transitions", 3);
                        let merged = merge(&[x, *y], v2).map_err(|e| ("merge-fails".to_string(), e))?;
                        let a = fresh();
                        a.apply(&merged, v2).map_err(|e| ("merged-not-appliable".to_string(), e))?;
                        let b = fresh();
                        for it in [x, *y] {
                            b.apply(if v2 { &it.v2 } else { &it.v1 }, v2).map_err(|e| ("input-not-appliable".to_string(), e))?;
                        }
                        let (ea, eb) = (effect(&a), effect(&b));
                        if ea != eb {
                            let healed = ea.pending && eb.pending && heals(&[a, b], &items);
                            return Err((
                                if healed {
                                    "merge-vs-sequential-transient-difference-while-gap-open".to_string()
                                } else if ea.pending || eb.pending {
                                    "merge-vs-sequential-differs-with-gap".to_string()
                                } else {
                                    "merge-vs-sequential-differs".to_string()
                                },
                                format!("nested inputs {:?} v2={}: merged gives {} but one-by-one gives {}", labels, v2, show_effect(&ea), show_effect(&eb)),
                            ));
                        }
                        Ok(())
                    });
                    if let Some(Err((class, msg))) = res {
                        ctx.violation("algebra", &class, msg, cj());
                    }
                }
            }
        }
    }
    // (a) on the authors' end states: selections of length <= 2
    for r in 0..cfgs.len() {
        for a in 0..n {
            for b in 0..n {
                let sel = [a, b];
                let labels: Vec<&str> = sel.iter().map(|i| items[*i].label.as_str()).collect();
                let case = json!({"cfgs": cfgs, "trace": trace, "selection": labels, "base": r});
                let cj = || case.clone();
                let res = ctx.exec(&cj, |ctx| -> Result<(), (String, String)> {
                    ctx.count("transitions", 4);
                    let picked = [&items[a], &items[b]];
                    let merged = merge(&picked, false).map_err(|e| ("merge-fails".to_string(), e))?;
                    let w1 = World::build(cfgs, trace).map_err(|e| ("harness".to_string(), e))?;
                    let w2 = World::build(cfgs, trace).map_err(|e| ("harness".to_string(), e))?;
                    w1.reps[r].apply(&merged, false).map_err(|e| ("merged-not-appliable".to_string(), e))?;
                    for it in picked {
                        w2.reps[r].apply(&it.v1, false).map_err(|e| ("input-not-appliable".to_string(), e))?;
                    }
                    let (e1, e2) = (effect(&w1.reps[r]), effect(&w2.reps[r]));
                    if e1 != e2 {
                        let mut healed = false;
                        if e1.pending && e2.pending {
                            for it in items.iter().filter(|i| i.label.starts_with('u')) {
                                let _ = w1.reps[r].apply(&it.v1, false);
                                let _ = w2.reps[r].apply(&it.v1, false);
                            }
                            let (f1, f2) = (effect(&w1.reps[r]), effect(&w2.reps[r]));
                            healed = f1 == f2 && !f1.pending;
                        }
                        return Err((
                            if healed {
                                "merge-vs-sequential-transient-difference-while-gap-open".to_string()
                            } else if e1.pending || e2.pending { "merge-vs-sequential-differs-with-gap".to_string() } else { "merge-vs-sequential-differs".to_string() },
                            format!("on author {}'s document, selection {:?}: merged gives {} but one-by-one gives {}", r, labels, show_effect(&e1), show_effect(&e2)),
                        ));
                    }
                    Ok(())
                });
                if let Some(Err((class, msg))) = res {
                    if class == "harness" {
                        ctx.machinery_error(msg);
                    } else {
                        ctx.violation("algebra", &class, msg, cj());
                    }
                }
            }
        }
    }
    ctx.sample(|| json!({"cfgs": cfgs, "trace": trace, "items": items.iter().map(|i| i.label.clone()).collect::<Vec<_>>()}));
    ctx.state(hash_of(&items.iter().map(|i| &i.v1).collect::<Vec<_>>()));
    let _ = base_case;
    let _: Option<Op> = None;
}
