//! C10 — decoders are total on untrusted bytes.
use crate::alloc::{disarm, measured};
use crate::engine::*;
use crate::model::AnyV;
use serde_json::{json, Value};
use std::collections::{BTreeSet, HashMap};
use std::sync::Arc;
use yrs::encoding::read::Cursor;
use yrs::sync::awareness::{AwarenessUpdate, AwarenessUpdateEntry};
use yrs::sync::protocol::MessageReader;
use yrs::sync::{Message, SyncMessage};
use yrs::updates::decoder::{Decode, DecoderV1};
use yrs::updates::encoder::Encode;
use yrs::{Any, ClientID, Doc, IdMap, IdSet, Snapshot, StateVector, StickyIndex, Text, Transact, Update, ID};

pub fn def() -> PropDef {
    PropDef {
        id: "C10",
        title: "decoders are total on untrusted bytes",
        shards: |t| t.pick(32, 256),
        run,
        replay,
        rule: "entry points: Update::decode_v1/v2, StateVector, Snapshot, IdSet (v1,v2), IdMap<String>, Any::decode, Any::from_json, StickyIndex (binary, JSON), MessageReader, AwarenessUpdate, merge_updates_v1/v2, diff_updates_v1/v2 (as update and as state vector), encode_state_vector_from_update_v1/v2. Inputs, enumerated completely: (1) EVERY byte string of length <= 2 (quick) / <= 3 (thorough) to every entry point; (2) for every payload of a corpus of valid payloads of every wire type: every truncation, every single-byte replacement (position x 256), every position overwritten by each of 8 extreme var-int encodings, every prefix(A)+suffix(B) splice inside a wire type, (thorough) every pair of positions overwritten with every pair from {00,01,7f,80,fe,ff}; (3) structural extremes (nesting depth 10^5, counts 2^32-1 without data). Oracle per call, in a worker with a counting allocator: returns Ok or Err - no panic, no abort / stack overflow (worker death = verdict), peak heap <= 256*len + 1 MiB and no request beyond the hard cap, <= 4 s, strings in Ok values valid UTF-8, an Ok value can be encoded again (v1 and v2) without panic. distinct_nontrivial = distinct inputs accepted (Ok) by at least one entry point",
        assumptions: &[
            "known-finding identity is the panic / abort site (file + function + message class)",
            "memory bound 256 bytes per input byte + 1 MiB (a decoded one-byte block costs a ~200 byte boxed item)",
        ],
    }
}

/// the post step runs after the measured decode call: its allocations are capped but not judged
type Post = Box<dyn FnOnce() -> Result<String, String>>;
type Ep = (&'static str, fn(&[u8]) -> Result<Post, String>);

fn post(f: impl FnOnce() -> Result<String, String> + 'static) -> Result<Post, String> {
    Ok(Box::new(f))
}

fn valid_utf8(s: &str) -> bool {
    std::str::from_utf8(s.as_bytes()).is_ok()
}

fn any_strings_ok(a: &Any) -> bool {
    match a {
        Any::String(s) => valid_utf8(s),
        Any::Array(v) => v.iter().all(any_strings_ok),
        Any::Map(m) => m.iter().all(|(k, v)| valid_utf8(k) && any_strings_ok(v)),
        _ => true,
    }
}

fn upd_post(u: Update) -> Result<String, String> {
    // an Ok value can be encoded again
    let n = yrs::verif::update_block_count(&u);
    // the dump costs a few hundred bytes per block: skipped for values far larger than any swept input
    if n <= 50_000 {
        let d = yrs::verif::update_dump(&u);
        for (_, l) in &d.blocks {
            for b in l {
                if !valid_utf8(&b.content) || b.parent_sub.as_ref().map(|s| !valid_utf8(s)).unwrap_or(false) {
                    return Err("INVALID-UTF8 in a decoded update".into());
                }
            }
        }
    }
    let a = u.encode_v1();
    let u2 = Update::decode_v1(&a).map_err(|e| format!("REENCODE: own v1 re-encoding does not decode: {}", e))?;
    let _ = u2.encode_v2();
    Ok(format!("update {} blocks", n))
}

fn entry_points() -> Vec<Ep> {
    fn valid_update() -> Vec<u8> {
        vec![1, 1, 5, 0, 4, 1, 1, 116, 1, 97, 0]
    }
    vec![
        ("Update::decode_v1", |b| {
            let u = Update::decode_v1(b).map_err(|e| e.to_string())?;
            post(move || upd_post(u))
        }),
        ("Update::decode_v2", |b| {
            let u = Update::decode_v2(b).map_err(|e| e.to_string())?;
            post(move || upd_post(u))
        }),
        ("StateVector::decode_v1", |b| {
            let sv = StateVector::decode_v1(b).map_err(|e| e.to_string())?;
            post(move || {
                let _ = (sv.encode_v1(), sv.encode_v2());
                Ok(format!("sv {}", sv.len()))
            })
        }),
        ("Snapshot::decode_v1", |b| {
            let s = Snapshot::decode_v1(b).map_err(|e| e.to_string())?;
            post(move || {
                let _ = (s.encode_v1(), s.encode_v2());
                Ok("snapshot".into())
            })
        }),
        ("Snapshot::decode_v2", |b| {
            let s = Snapshot::decode_v2(b).map_err(|e| e.to_string())?;
            post(move || {
                let _ = (s.encode_v1(), s.encode_v2());
                Ok("snapshot".into())
            })
        }),
        ("IdSet::decode_v1", |b| {
            let s = IdSet::decode_v1(b).map_err(|e| e.to_string())?;
            post(move || {
                let _ = (s.encode_v1(), s.encode_v2());
                Ok("idset".into())
            })
        }),
        ("IdSet::decode_v2", |b| {
            let s = IdSet::decode_v2(b).map_err(|e| e.to_string())?;
            post(move || {
                let _ = (s.encode_v1(), s.encode_v2());
                Ok("idset".into())
            })
        }),
        ("IdMap::decode_v1", |b| {
            let s = IdMap::<String>::decode_v1(b).map_err(|e| e.to_string())?;
            post(move || {
                let _ = (s.encode_v1(), s.encode_v2());
                Ok("idmap".into())
            })
        }),
        ("Any::decode", |b| {
            let mut c = Cursor::new(b);
            let a = Any::decode(&mut c).map_err(|e| e.to_string())?;
            post(move || {
                if !any_strings_ok(&a) {
                    return Err("INVALID-UTF8 in a decoded Any".into());
                }
                let mut e = yrs::updates::encoder::EncoderV1::new();
                a.encode(&mut e);
                let mut s = String::new();
                a.to_json(&mut s);
                Ok("any".into())
            })
        }),
        ("Any::from_json", |b| {
            let s = std::str::from_utf8(b).map_err(|e| e.to_string())?;
            let a = Any::from_json(s).map_err(|e| e.to_string())?;
            post(move || {
                let mut out = String::new();
                a.to_json(&mut out);
                Ok("json".into())
            })
        }),
        ("StickyIndex::decode_v1", |b| {
            let s = StickyIndex::decode_v1(b).map_err(|e| e.to_string())?;
            post(move || {
                let _ = (s.encode_v1(), serde_json::to_string(&s));
                Ok("sticky".into())
            })
        }),
        ("StickyIndex::from_json", |b| {
            let s: StickyIndex = serde_json::from_slice(b).map_err(|e| e.to_string())?;
            post(move || {
                let _ = s.encode_v1();
                Ok("sticky".into())
            })
        }),
        ("MessageReader", |b| {
            let mut d = DecoderV1::new(Cursor::new(b));
            let mut r = MessageReader::new(&mut d);
            let mut msgs = Vec::new();
            while let Some(m) = r.next() {
                msgs.push(m.map_err(|e| e.to_string())?);
                if msgs.len() > 100_000 {
                    return Err("LOOP: reader yields messages without end".into());
                }
            }
            post(move || {
                for m in &msgs {
                    let _ = (m.encode_v1(), m.encode_v2());
                }
                Ok(format!("{} messages", msgs.len()))
            })
        }),
        ("AwarenessUpdate::decode_v1", |b| {
            let u = AwarenessUpdate::decode_v1(b).map_err(|e| e.to_string())?;
            post(move || {
                for e in u.clients.values() {
                    if !valid_utf8(&e.json) {
                        return Err("INVALID-UTF8 in awareness json".into());
                    }
                }
                let _ = u.encode_v1();
                Ok("awareness".into())
            })
        }),
        ("merge_updates_v1", |b| {
            let m = yrs::merge_updates_v1([b, valid_update().as_slice()]).map_err(|e| e.to_string())?;
            post(move || {
                Update::decode_v1(&m).map_err(|e| format!("REENCODE: merge result does not decode: {}", e))?;
                Ok("merged".into())
            })
        }),
        ("merge_updates_v2", |b| {
            let v = Update::decode_v1(&valid_update()).unwrap().encode_v2();
            let m = yrs::merge_updates_v2([b, v.as_slice()]).map_err(|e| e.to_string())?;
            post(move || {
                Update::decode_v2(&m).map_err(|e| format!("REENCODE: merge result does not decode: {}", e))?;
                Ok("merged".into())
            })
        }),
        ("diff_updates_v1(update=input)", |b| {
            let sv = StateVector::default().encode_v1();
            yrs::diff_updates_v1(b, &sv).map_err(|e| e.to_string())?;
            post(|| Ok("diff".into()))
        }),
        ("diff_updates_v1(sv=input)", |b| {
            yrs::diff_updates_v1(&valid_update(), b).map_err(|e| e.to_string())?;
            post(|| Ok("diff".into()))
        }),
        ("diff_updates_v2(update=input)", |b| {
            let sv = StateVector::default().encode_v2();
            yrs::diff_updates_v2(b, &sv).map_err(|e| e.to_string())?;
            post(|| Ok("diff".into()))
        }),
        ("encode_state_vector_from_update_v1", |b| {
            yrs::encode_state_vector_from_update_v1(b).map_err(|e| e.to_string())?;
            post(|| Ok("sv".into()))
        }),
        ("encode_state_vector_from_update_v2", |b| {
            yrs::encode_state_vector_from_update_v2(b).map_err(|e| e.to_string())?;
            post(|| Ok("sv".into()))
        }),
    ]
}

/// run all entry points on one input (one journalled execution per input)
fn feed(ctx: &mut Ctx, eps: &[Ep], input: &[u8], origin: &str) -> bool {
    let case = json!({"origin": origin, "bytes": input});
    let cj = || case.clone();
    let mut accepted = false;
    let res = ctx.exec(&cj, |ctx| {
        let mut out: Vec<(String, String, String)> = Vec::new();
        for (name, f) in eps {
            ctx.count("transitions", 1);
            let t0 = std::time::Instant::now();
            let (r, peak, single) = measured(|| f(input));
            let dt = t0.elapsed();
            // post step (re-encoding, UTF-8 scan): under the hard cap, not under the memory oracle
            let r = match r {
                Ok(p) => measured(p).0,
                Err(e) => Err(e),
            };
            let limit = 256 * input.len() + (1 << 20);
            if peak > limit {
                // a hand-made extreme is its own class: identity = that input
                let input_id = if origin.starts_with("rle-run") { format!(":input={}", origin.replace(' ', "-")) } else { String::new() };
                out.push(("memory".into(), format!("memory-disproportionate@{}{}", name, input_id), format!("{}: {} input bytes, peak heap {} bytes (largest request {})", name, input.len(), peak, single)));
            }
            if dt.as_millis() > 2000 {
                out.push(("time".into(), format!("slow@{}", name), format!("{}: {} input bytes took {:?}", name, input.len(), dt)));
            }
            match r {
                Ok(_) => accepted = true,
                Err(e) if e.starts_with("INVALID-UTF8") || e.starts_with("REENCODE") || e.starts_with("LOOP") => {
                    out.push(("ok-value".into(), format!("{}@{}", e.split(':').next().unwrap_or("").split(' ').next().unwrap_or(""), name), format!("{}: {}", name, e)));
                }
                Err(_) => {}
            }
        }
        out
    });
    disarm();
    if let Some(v) = res {
        for (oracle, class, msg) in v {
            ctx.violation(&oracle, &class, msg, cj());
        }
    }
    ctx.state(hash_of(input));
    if accepted {
        ctx.outcome(hash_of(input));
    }
    accepted
}

fn extreme_varints() -> Vec<Vec<u8>> {
    vec![
        vec![0xff, 0xff, 0xff, 0xff, 0x07],                               // 2^31-1
        vec![0x80, 0x80, 0x80, 0x80, 0x08],                               // 2^31
        vec![0xff, 0xff, 0xff, 0xff, 0x0f],                               // 2^32-1
        vec![0x80, 0x80, 0x80, 0x80, 0x10],                               // 2^32
        vec![0x80, 0x80, 0x80, 0x80, 0x80, 0x80, 0x80, 0x10],             // 2^53
        vec![0xff, 0xff, 0xff, 0xff, 0xff, 0xff, 0xff, 0xff, 0xff, 0x01], // 2^64-1
        vec![0xff; 12],                                                   // over-long
        vec![0x80, 0x80, 0x00],                                           // non-canonical zero
    ]
}

/// corpus of valid payloads, grouped by wire type (splices stay inside a group)
fn corpus() -> Vec<(&'static str, Vec<Vec<u8>>)> {
    let mut updates_v1: Vec<Vec<u8>> = vec![
        vec![1, 1, 5, 0, 4, 1, 1, 116, 1, 97, 0],
        // two clients, origins, delete set
        vec![2, 2, 6, 0, 4, 1, 1, 116, 2, 97, 98, 132, 6, 1, 1, 99, 1, 5, 0, 0, 1, 1, 6, 1, 0, 1],
        // map entry with Any content (map, array, string, bigint, buffer)
        vec![1, 1, 5, 0, 40, 1, 1, 109, 1, 107, 1, 118, 1, 1, 97, 117, 2, 119, 2, 195, 169, 122, 0, 0, 0, 0, 0, 0, 0, 1, 0],
        // nested type + gc + skip
        vec![1, 4, 5, 0, 7, 1, 1, 97, 0, 0, 2, 10, 1, 8, 0, 5, 0, 1, 125, 1, 0],
        // format, embed, binary, json, deleted, doc
        vec![1, 3, 5, 0, 6, 1, 1, 116, 1, 98, 4, 116, 114, 117, 101, 133, 5, 0, 9, 123, 34, 97, 34, 58, 49, 125, 0, 131, 5, 1, 3, 1, 2, 3, 0],
    ];
    // real history payloads: a document with text, map, array, xml, formatting, deletions
    {
        let doc = Doc::with_client_id(7);
        let t = doc.get_or_insert_text("t");
        let m = doc.get_or_insert_map("m");
        let a = doc.get_or_insert_array("a");
        {
            use yrs::{Array, Map};
            let mut txn = doc.transact_mut();
            t.insert(&mut txn, 0, "héllo😀");
            t.format(&mut txn, 1, 3, [(Arc::<str>::from("b"), Any::Bool(true))].into_iter().collect());
            t.remove_range(&mut txn, 0, 1);
            m.insert(&mut txn, "k", yrs::MapPrelim::from([("x", 1i64)]));
            m.insert(&mut txn, "k", "v");
            a.insert(&mut txn, 0, yrs::ArrayPrelim::from([1i64, 2]));
            a.insert(&mut txn, 0, 1.5f64);
        }
        let txn = doc.transact();
        use yrs::ReadTxn;
        updates_v1.push(txn.encode_state_as_update_v1(&StateVector::default()));
    }
    let updates_v2: Vec<Vec<u8>> = updates_v1.iter().filter_map(|b| Update::decode_v1(b).ok().map(|u| u.encode_v2())).collect();
    let mut sv = StateVector::default();
    sv.set_max(ClientID::new(5), 3);
    sv.set_max(ClientID::new((1 << 53) - 1), u32::MAX);
    let mut ids = IdSet::new();
    ids.insert(ID::new(ClientID::new(5), 0), 2);
    ids.insert(ID::new(ClientID::new(5), 4), 1);
    ids.insert(ID::new(ClientID::new(9), 7), 3);
    let snap = Snapshot::new(sv.clone(), ids.clone());
    let mut idmap: IdMap<String> = IdMap::new();
    idmap.insert(yrs::block::BlockRange::new(ID::new(ClientID::new(5), 0), 3), vec![yrs::ContentAttribute::new("a", "x".to_string())]);
    idmap.insert(yrs::block::BlockRange::new(ID::new(ClientID::new(5), 2), 3), vec![yrs::ContentAttribute::new("b", "y".to_string())]);
    let any = AnyV::Map([("k".to_string(), AnyV::Arr(vec![AnyV::s("é"), AnyV::num(0.5), AnyV::Big(-1), AnyV::Buf(vec![1, 2]), AnyV::Null]))].into_iter().collect()).to_any();
    let mut anyb = yrs::updates::encoder::EncoderV1::new();
    any.encode(&mut anyb);
    use yrs::updates::encoder::Encoder;
    let anyb = anyb.to_vec();
    let sticky = vec![
        StickyIndex::from_id(ID::new(ClientID::new(5), 3), yrs::Assoc::After).encode_v1(),
        StickyIndex::from_id(ID::new(ClientID::new(5), 3), yrs::Assoc::Before).encode_v1(),
    ];
    let sticky_json = vec![serde_json::to_vec(&StickyIndex::from_id(ID::new(ClientID::new(5), 3), yrs::Assoc::After)).unwrap()];
    // two clients, written by hand: the map's iteration order would differ from process to process
    let aw_bytes: Vec<u8> = {
        let j = "{\"n\":\"é\"}".as_bytes();
        let mut b = vec![2u8, 1, 3, j.len() as u8];
        b.extend_from_slice(j);
        b.extend_from_slice(&[2, 0, 4]);
        b.extend_from_slice(b"null");
        b
    };
    AwarenessUpdate::decode_v1(&aw_bytes).expect("hand-written awareness update");
    let msgs: Vec<Vec<u8>> = vec![
        Message::Sync(SyncMessage::SyncStep1(sv.clone())).encode_v1(),
        Message::Sync(SyncMessage::SyncStep2(updates_v1[0].clone())).encode_v1(),
        Message::Sync(SyncMessage::Update(updates_v1[1].clone())).encode_v1(),
        Message::Auth(Some("no".into())).encode_v1(),
        Message::AwarenessQuery.encode_v1(),
        {
            // tag 1 + length-prefixed payload, by hand for the same reason
            let mut b = vec![1u8, aw_bytes.len() as u8];
            b.extend_from_slice(&aw_bytes);
            b
        },
        Message::Custom(200, vec![1, 2, 3]).encode_v1(),
        [Message::AwarenessQuery.encode_v1(), Message::Auth(None).encode_v1()].concat(),
    ];
    vec![
        ("update-v1", updates_v1),
        ("update-v2", updates_v2),
        ("state-vector", vec![sv.encode_v1(), StateVector::default().encode_v1()]),
        ("snapshot", vec![snap.encode_v1(), snap.encode_v2()]),
        ("id-set", vec![ids.encode_v1(), ids.encode_v2()]),
        ("id-map", vec![idmap.encode_v1()]),
        ("any", vec![anyb]),
        ("json", vec![b"{\"a\":[1,2.5,\"x\\u00e9\",null,true,{\"b\":{}}]}".to_vec()]),
        ("sticky", sticky),
        ("sticky-json", sticky_json),
        ("awareness", vec![aw_bytes.clone()]),
        ("message", msgs),
    ]
}

fn extremes() -> Vec<(&'static str, Vec<u8>)> {
    let mut out = Vec::new();
    // deeply nested Any arrays / maps
    for depth in [1_000usize, 100_000] {
        let mut b = Vec::new();
        for _ in 0..depth {
            b.extend_from_slice(&[117, 1]);
        }
        b.push(126);
        out.push(("nested any arrays", b.clone()));
        // as Any content of an update
        let mut u = vec![1, 1, 5, 0, 8, 1, 1, 97, 1];
        u.extend_from_slice(&b);
        u.push(0);
        out.push(("nested any arrays inside an update", u));
        let mut m = Vec::new();
        for _ in 0..depth {
            m.extend_from_slice(&[118, 1, 1, 107]);
        }
        m.push(126);
        out.push(("nested any maps", m));
        let j: String = "[".repeat(depth) + &"]".repeat(depth);
        out.push(("nested json arrays", j.into_bytes()));
    }
    // counts without data
    for v in extreme_varints() {
        out.push(("count only", v.clone()));
        let mut any_arr = vec![117];
        any_arr.extend_from_slice(&v);
        out.push(("any array count only", any_arr));
        let mut any_map = vec![118];
        any_map.extend_from_slice(&v);
        out.push(("any map count only", any_map));
        let mut upd = vec![1];
        upd.extend_from_slice(&v);
        upd.extend_from_slice(&[5, 0]);
        out.push(("update block count only", upd));
        let mut ds = vec![0, 1, 5];
        ds.extend_from_slice(&v);
        out.push(("delete set range count only", ds));
        let mut s = vec![1, 1, 5, 0, 4, 1, 1, 116];
        s.extend_from_slice(&v);
        out.push(("string length only", s));
    }
    // v2 run-length expansion: a few bytes declare 2^k GC blocks, every per-block field comes from an RLE run
    for (name, k) in [("rle-run of 2^16 gc blocks", 16u32), ("rle-run of 2^22 gc blocks", 22)] {
        let n: u32 = 1 << k;
        let mut len_buf = vec![0x41u8]; // -1: the value 1 followed by a run count
        let mut w = |mut x: u32, out: &mut Vec<u8>| {
            while x >= 0x80 {
                out.push((x & 0x7f) as u8 | 0x80);
                x >>= 7;
            }
            out.push(x as u8);
        };
        w(n - 2, &mut len_buf);
        let mut main = vec![1u8];
        w(n, &mut main);
        main.extend_from_slice(&[0, 0]);
        let mut b = vec![0u8, 0, 1, 5, 0, 0, 1, 0, 1, 0, 0, 0, len_buf.len() as u8];
        b.extend_from_slice(&len_buf);
        b.extend_from_slice(&main);
        out.push((name, b));
    }
    out
}

fn run(ctx: &mut Ctx) {
    let eps = entry_points();
    let mut idx = 0u64;
    // (1) every byte string up to the length bound
    let maxlen = match ctx.tier {
        Tier::Quick => 2,
        Tier::Thorough => 3,
    };
    feed_if(ctx, &eps, &mut idx, &[], "all-bytes");
    for len in 1..=maxlen {
        let total = 256u64.pow(len as u32);
        for n in 0..total {
            idx += 1;
            if !ctx.mine(idx) {
                continue;
            }
            if ctx.out_of_time() {
                return;
            }
            let mut b = vec![0u8; len];
            let mut x = n;
            for k in (0..len).rev() {
                b[k] = (x & 0xff) as u8;
                x >>= 8;
            }
            let _ = feed(ctx, &eps, &b, "all-bytes");
        }
    }
    // (1b) every longer string over a structural alphabet: counts / content refs 0..4, content kinds (type 7, any 8, skip 10),
    // item info bytes with origin / right-origin / parent-sub flags (0x27 0x47 0x84), varint continuation bytes (0x7f 0x80 0xff)
    // and Any tags (array 0x75, string 0x77)
    const A16: [u8; 16] = [0x00, 0x01, 0x02, 0x03, 0x04, 0x07, 0x08, 0x0a, 0x27, 0x47, 0x84, 0x7f, 0x80, 0xff, 0x75, 0x77];
    let (lo, hi) = match ctx.tier {
        Tier::Quick => (3usize, 4usize),
        Tier::Thorough => (4, 6),
    };
    for len in lo..=hi {
        let total = 16u64.pow(len as u32);
        for n in 0..total {
            idx += 1;
            if !ctx.mine(idx) {
                continue;
            }
            if ctx.out_of_time() {
                return;
            }
            let mut b = vec![0u8; len];
            let mut x = n;
            for k in (0..len).rev() {
                b[k] = A16[(x & 0xf) as usize];
                x >>= 4;
            }
            let _ = feed(ctx, &eps, &b, "alphabet-strings");
        }
    }
    // (1c) thorough: still longer strings (7..8 bytes) over half of that alphabet
    if ctx.tier == Tier::Thorough {
        const A8: [u8; 8] = [0x00, 0x01, 0x02, 0x07, 0x27, 0x84, 0x80, 0xff];
        for len in 7..=8usize {
            let total = 8u64.pow(len as u32);
            for n in 0..total {
                idx += 1;
                if !ctx.mine(idx) {
                    continue;
                }
                if ctx.out_of_time() {
                    return;
                }
                let mut b = vec![0u8; len];
                let mut x = n;
                for k in (0..len).rev() {
                    b[k] = A8[(x & 0x7) as usize];
                    x >>= 3;
                }
                let _ = feed(ctx, &eps, &b, "alphabet-strings");
            }
        }
    }
    // (3) structural extremes
    for (what, b) in extremes() {
        feed_if(ctx, &eps, &mut idx, &b, what);
    }
    // (2) mutations of the corpus
    let ext = extreme_varints();
    for (group, payloads) in corpus() {
        for (pi, p) in payloads.iter().enumerate() {
            ctx.sample(|| json!({"origin": format!("corpus {} #{}", group, pi), "bytes": p}));
            idx += 1;
            if ctx.mine(idx) && !ctx.out_of_time() && !feed(ctx, &eps, p, group) {
                // vacuity guard: a corpus payload that no entry point accepts mutates nothing of interest
                ctx.machinery_error(format!("corpus payload {} #{} is accepted by no entry point", group, pi));
            }
            for cut in 0..p.len() {
                feed_if(ctx, &eps, &mut idx, &p[..cut], "truncation");
            }
            for pos in 0..p.len() {
                if ctx.out_of_time() {
                    return;
                }
                for v in 0..=255u8 {
                    if v == p[pos] {
                        continue;
                    }
                    idx += 1;
                    if !ctx.mine(idx) {
                        continue;
                    }
                    let mut m = p.clone();
                    m[pos] = v;
                    let _ = feed(ctx, &eps, &m, "byte-replacement");
                }
                for e in &ext {
                    let mut m = p[..pos].to_vec();
                    m.extend_from_slice(e);
                    m.extend_from_slice(&p[pos + 1..]);
                    feed_if(ctx, &eps, &mut idx, &m, "varint-replacement");
                }
            }
            // two-point mutations over a boundary alphabet (thorough)
            if ctx.tier == Tier::Thorough {
                const B: [u8; 6] = [0x00, 0x01, 0x7f, 0x80, 0xfe, 0xff];
                for i in 0..p.len() {
                    if ctx.out_of_time() {
                        return;
                    }
                    for j in (i + 1)..p.len() {
                        for a in B {
                            for b in B {
                                if a == p[i] || b == p[j] {
                                    continue;
                                }
                                idx += 1;
                                if !ctx.mine(idx) {
                                    continue;
                                }
                                let mut m = p.clone();
                                m[i] = a;
                                m[j] = b;
                                let _ = feed(ctx, &eps, &m, "two-byte-replacement");
                            }
                        }
                    }
                }
            }
            // splices inside the group
            if ctx.tier == Tier::Thorough || payloads.len() <= 3 || pi < 3 {
                for (qi, q) in payloads.iter().enumerate() {
                    if qi == pi {
                        continue;
                    }
                    for i in 0..=p.len() {
                        for j in 0..=q.len() {
                            if ctx.tier == Tier::Quick && (i + j) % 3 != 0 {
                                continue;
                            }
                            let mut m = p[..i].to_vec();
                            m.extend_from_slice(&q[j..]);
                            feed_if(ctx, &eps, &mut idx, &m, "splice");
                        }
                    }
                }
            }
        }
    }
}

fn feed_if(ctx: &mut Ctx, eps: &[Ep], idx: &mut u64, b: &[u8], origin: &str) {
    *idx += 1;
    if ctx.mine(*idx) && !ctx.out_of_time() {
        let _ = feed(ctx, eps, b, origin);
    }
}

fn replay(ctx: &mut Ctx, case: &Value) {
    let bytes: Vec<u8> = serde_json::from_value(case["bytes"].clone()).unwrap_or_default();
    let eps = entry_points();
    let _ = feed(ctx, &eps, &bytes, case["origin"].as_str().unwrap_or("replay"));
}
