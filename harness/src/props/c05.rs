//! C05 — map entries are causal last-writer-wins registers.
use super::conv::*;
use crate::engine::*;
use crate::model::*;
use crate::ops::*;
use crate::world::*;
use serde_json::Value;
use yrs::verif::{BlockKind, ParentDump};

pub fn def() -> PropDef {
    PropDef {
        id: "C05",
        title: "map entries are causal LWW registers",
        shards: |t| t.pick(48, 192),
        run,
        replay,
        rule: "all histories of set/remove/clear on keys {k1,k2} of a root map (and nested containers, family nest) on 2..3 real replicas with every placement of causal syncs (so every happened-before shape among <= L operations) and every client-id order; every delivery order (subset lattice). At every replica state with nothing pending (author states along the history and lattice nodes), per key with M = hb-maximal operations among the integrated ones: (i) value absent or written by a write in M; (ii) absent only if M has a removal or no write exists; (iii) a maximal write with no concurrent sibling write wins (a write concurrent with a removal survives); (iv) every integrated item whose container item is deleted is itself deleted. distinct_nontrivial = distinct (hb-shape, value) situations with >= 2 operations on one key",
        assumptions: &[
            "happened-before tracked by the harness",
            "reading (iii): between concurrent sibling writes the client-id tie-break may let either win, and a removal that saw only one sibling may then leave the key absent (DESIGN.md 4/C05)",
        ],
    }
}

pub fn bounds(tier: Tier) -> Vec<ConvBound> {
    let mk = |fam, level, cfgs: Vec<RCfg>, depth, budget| ConvBound {
        fam,
        level,
        cfgs,
        depth,
        budget,
        kinds: K_DUP | K_MERGE,
        observers: vec![obs(true)],
        authors_receive: true,
        min_pool: 2,
    };
    match tier {
        Tier::Quick => vec![
            mk(Fam::Map, 1, vec![rc(1, true), rc(2, true)], 3, 0),
            mk(Fam::Map, 0, vec![rc(2, true), rc(1, true)], 5, 0),
            mk(Fam::Map, 0, vec![rc(1, false), rc(2, true)], 5, 0),
            mk(Fam::Map, 1, vec![rc(1, true), rc(2, true), rc(3, true)], 3, 0),
            mk(Fam::Nest, 0, vec![rc(1, true), rc(2, false)], 3, 0),
        ],
        Tier::Thorough => vec![
            mk(Fam::Map, 0, vec![rc(2, true), rc(1, true)], 6, 0),
            mk(Fam::Map, 0, vec![rc(1, false), rc(2, true)], 5, 1),
            mk(Fam::Map, 1, vec![rc(1, true), rc(2, true)], 4, 1),
            mk(Fam::Map, 1, vec![rc(2, true), rc(1, false)], 4, 0),
            mk(Fam::Map, 0, vec![rc(1, true), rc(2, true), rc(3, true)], 4, 0),
            mk(Fam::Map, 0, vec![rc(3, true), rc(2, true), rc(1, true)], 4, 0),
            mk(Fam::Map, 0, vec![rc(2, true), rc(3, true), rc(1, true)], 4, 0),
            mk(Fam::Nest, 0, vec![rc(1, true), rc(2, false)], 4, 0),
            mk(Fam::Nest, 0, vec![rc(2, false), rc(1, false)], 4, 0),
        ],
    }
}

#[derive(Clone, Debug)]
enum KOp {
    Write(String),
    Remove,
}

#[derive(Default)]
pub struct C05Monitor {
    /// per pool update: (key, op) list for the root map
    kops: Vec<Vec<(String, KOp)>>,
    preds: Vec<u32>,
    map_fam: bool,
}

fn val_str(v: &Val) -> String {
    v.to_node().show()
}

impl C05Monitor {
    fn observe(&mut self, ctx: &mut Ctx, rep: &Replica, mask: u32, whence: &str, case: &dyn Fn() -> Value) {
        if rep.pending() {
            return;
        }
        let sd = rep.store_dump();
        // (iv) subtree of a deleted container is deleted
        {
            let idx = crate::seq::block_index(&sd);
            for (_, list) in &sd.clients {
                for b in list {
                    if b.kind != BlockKind::Item {
                        continue;
                    }
                    if let ParentDump::Nested(pid) = &b.parent {
                        // find block containing pid
                        let parent = idx
                            .values()
                            .find(|p| p.id.0 == pid.0 && p.id.1 <= pid.1 && pid.1 < p.id.1 + p.len);
                        if let Some(p) = parent {
                            if p.deleted && !b.deleted {
                                ctx.violation(
                                    "subtree-deleted",
                                    "live-item-under-deleted-container",
                                    format!(
                                        "{}: item {:?} ({}) is alive although its container item {:?} is deleted",
                                        whence, b.id, b.content, p.id
                                    ),
                                    case(),
                                );
                                return;
                            }
                        }
                    }
                }
            }
        }
        if !self.map_fam {
            return;
        }
        let dump = rep.dump();
        let Some(Node::Map(m)) = dump.get(&'m') else { return };
        for key in ["k1", "k2"] {
            let ops: Vec<(usize, &KOp)> = self
                .kops
                .iter()
                .enumerate()
                .filter(|(i, _)| mask & (1 << i) != 0)
                .flat_map(|(i, l)| l.iter().filter(|(k, _)| k == key).map(move |(_, o)| (i, o)))
                .collect();
            let got: Option<String> = m.get(key).map(|n| n.show());
            if ops.is_empty() {
                if got.is_some() {
                    ctx.violation(
                        "lww",
                        "value-without-write",
                        format!("{}: key {} has value {:?} but no integrated operation wrote it", whence, key, got),
                        case(),
                    );
                }
                continue;
            }
            let hb = |a: usize, b: usize| self.preds[b] & (1 << a) != 0; // a happened before b
            let maximal: Vec<&(usize, &KOp)> = ops
                .iter()
                .filter(|(i, _)| !ops.iter().any(|(j, _)| hb(*i, *j)))
                .collect();
            let max_writes: Vec<String> = maximal
                .iter()
                .filter_map(|(_, o)| match o {
                    KOp::Write(v) => Some(v.clone()),
                    _ => None,
                })
                .collect();
            let any_write = ops.iter().any(|(_, o)| matches!(o, KOp::Write(_)));
            let max_has_remove = maximal.iter().any(|(_, o)| matches!(o, KOp::Remove));
            if ops.len() >= 2 {
                let shape: Vec<(bool, Vec<usize>)> = ops
                    .iter()
                    .map(|(i, o)| {
                        (
                            matches!(o, KOp::Write(_)),
                            ops.iter().enumerate().filter(|(_, (j, _))| hb(*j, *i)).map(|(x, _)| x).collect(),
                        )
                    })
                    .collect();
                ctx.outcome(hash_of(&(shape, got.is_some())));
            }
            match &got {
                Some(v) => {
                    if !max_writes.contains(v) {
                        ctx.violation(
                            "lww",
                            "overwritten-or-removed-value-visible",
                            format!(
                                "{}: key {} = {} but the causally maximal writes are {:?} (ops {:?})",
                                whence, key, v, max_writes, ops
                            ),
                            case(),
                        );
                        return;
                    }
                }
                None => {
                    if any_write && !max_has_remove {
                        ctx.violation(
                            "lww",
                            "absent-without-maximal-removal",
                            format!(
                                "{}: key {} is absent but no causally maximal operation is a removal (ops {:?})",
                                whence, key, ops
                            ),
                            case(),
                        );
                        return;
                    }
                }
            }
            // (iii) a maximal write without a concurrent sibling write must win
            for (i, o) in &ops {
                if let KOp::Write(v) = o {
                    let is_max = !ops.iter().any(|(j, _)| hb(*i, *j));
                    if !is_max {
                        continue;
                    }
                    let sibling = ops.iter().any(|(j, o2)| {
                        j != i && matches!(o2, KOp::Write(_)) && !hb(*j, *i) && !hb(*i, *j)
                    });
                    if !sibling && got.as_ref() != Some(v) {
                        ctx.violation(
                            "lww",
                            "unchallenged-maximal-write-lost",
                            format!(
                                "{}: key {} = {:?} but write {} (update {}) is causally maximal and has no concurrent sibling write (ops {:?})",
                                whence, key, got, v, i, ops
                            ),
                            case(),
                        );
                        return;
                    }
                }
            }
        }
    }
}

impl Monitor for C05Monitor {
    fn begin_pool(&mut self, ctx: &mut Ctx, b: &ConvBound, w: &World, trace: &[Act]) {
        self.map_fam = b.fam == Fam::Map;
        self.kops.clear();
        self.preds.clear();
        for u in &w.pool {
            let mut l = Vec::new();
            match &u.op {
                Some(Op::MSet { t, k, v }) if t.path.is_empty() => {
                    l.push((k.clone(), KOp::Write(val_str(v))))
                }
                Some(Op::MTryUpdate { t, k, v }) if t.path.is_empty() => {
                    l.push((k.clone(), KOp::Write(Node::Any(v.clone()).show())))
                }
                Some(Op::MDel { t, k }) if t.path.is_empty() => l.push((k.clone(), KOp::Remove)),
                Some(Op::MClear { t }) if t.path.is_empty() => {
                    for k in &u.cleared {
                        l.push((k.clone(), KOp::Remove));
                    }
                }
                _ => {}
            }
            self.kops.push(l);
            self.preds.push(mask_of(&u.preds));
        }
        let cj = || case_json(b, trace, "history", &[]);
        for k in 1..=trace.len() {
            if let Ok(wk) = World::build(&b.cfgs, &trace[..k]) {
                for (i, rep) in wk.reps.iter().enumerate() {
                    let m = mask_of(&rep.known);
                    self.observe(ctx, rep, m, &format!("author{} after step {}", i, k), &cj);
                }
            }
        }
    }

    fn node(&mut self, ctx: &mut Ctx, _pool: &[Upd], node: &LatticeNode, case: &dyn Fn() -> Value) {
        let whence = format!("receiver after path {:?}", node.path);
        self.observe(ctx, node.recv.rep(), node.mask, &whence, case);
    }
}

fn run(ctx: &mut Ctx) {
    let b = bounds(ctx.tier);
    let mut mon = C05Monitor::default();
    run_conv(ctx, &b, &mut mon);
}

fn replay(ctx: &mut Ctx, case: &Value) {
    let b = bounds(Tier::Quick);
    let mut mon = C05Monitor::default();
    replay_case(ctx, case, &mut mon, &b[0]);
}
