//! C18 — y-sync handshake and awareness states converge.
//!
//! Part H (handshake): explicit-state search over ALL interleavings of two peers running
//! `DefaultProtocol` on real documents over two FIFO byte channels, with prior divergence,
//! concurrent edits and awareness changes during the handshake.
//! Part A (awareness): explicit-state search over three real `Awareness` registers; a state is
//! plain data (client -> clock, json|null) and is re-materialised on a real `Awareness` for every
//! transition, so every edge runs the real merge code.
use super::conv::show_model;
use crate::engine::*;
use crate::ops::*;
use crate::world::*;
use serde::{Deserialize, Serialize};
use serde_json::{json, Value};
use std::collections::{BTreeMap, BTreeSet, HashMap, HashSet, VecDeque};
use std::sync::Arc;
use yrs::encoding::read::Cursor;
use yrs::sync::awareness::AwarenessUpdateEntry;
use yrs::sync::protocol::MessageReader;
use yrs::sync::{Awareness, AwarenessUpdate, DefaultProtocol, Message, Protocol, SyncMessage};
use yrs::updates::decoder::{Decode, DecoderV1};
use yrs::updates::encoder::{Encode, Encoder, EncoderV1};
use yrs::{ClientID, Doc, Transact};

pub fn def() -> PropDef {
    PropDef {
        id: "C18",
        title: "y-sync handshake and awareness states converge",
        shards: |t| t.pick(32, 128),
        run,
        replay,
        rule: "Part H: two peers (Awareness + DefaultProtocol on real Docs, client ids 3 and 5, both client-id orders), two FIFO byte channels. Prior divergence: every sequence of <= P local edits spread over both peers with optional full / one-way syncs in between (common base, cross-client origins). Then ALL interleavings of {Connect(p) = Protocol::start, Recv(p) = pop head payload, Protocol::handle, push replies, Edit(p, op) (<= E, forwarded as Update), AwSet(p) (<= 1, forwarded as Awareness)}, state-matched on (both internal store dumps, both channel contents, awareness registers, counters). Every payload crossing a channel is decoded with MessageReader, re-encoded and decoded again (same messages, same length; an awareness update of several clients is written in hash order). At every quiescent state (both connected, both channels empty): equal visible dumps, equal state vectors, nothing pending, equal awareness registers. Part A: three real Awareness instances (clients 1,2,3), controlled clock; BFS over {set_local_state(A|B), clean_local_state, remove_state(other live client) (time-out), emit update() / update_with_clients(one | all known) into a pool, deliver any pooled update to any peer} up to D actions, states are plain data re-materialised on a real Awareness per transition. Per delivery: per-client clock never decreases, an entry with a lower clock changes nothing, a higher clock wins, the peer's own live state is never erased, untouched clients unchanged, delivering again changes nothing; per local action: own clock strictly increases; per state: every ordered pair of pooled updates commutes on every peer; at the deepest states every permutation of every <= 4-subset of the pool gives the same registers on every peer, and exchanging full updates until nothing changes makes all peers agree. distinct_nontrivial = distinct quiescent (documents, awareness) outcomes + distinct register maps",
        assumptions: &[
            "awareness JSON values are the strings \"A\", \"B\", \"s<n>\"; the JSON literal null as a *local* state is excluded (it is indistinguishable from removal on the wire)",
            "time-outs (remove_state of another client) only for clients the peer knows as live, as in y-protocols",
            "updates produced while applying remote messages (none in the families used: no formatting clean-up) are not echoed",
        ],
    }
}

// ---------------------------------------------------------------------------------------------
// Part H — handshake
// ---------------------------------------------------------------------------------------------

#[derive(Clone, Debug, PartialEq, Eq, Hash, Serialize, Deserialize)]
pub enum H {
    /// edit before the connection exists
    Pre(usize, Op),
    /// both peers exchange full states (a common base)
    PreSync,
    /// peer p receives the other's full state (one-way)
    PreDeliver(usize),
    /// the connection is established; from here on local edits are forwarded
    Go,
    Connect(usize),
    Recv(usize),
    Edit(usize, Op),
    AwSet(usize),
}

#[derive(Clone, Debug, Serialize, Deserialize)]
pub struct HCfg {
    pub fam: Fam,
    pub level: u8,
    /// client ids of peer 0 and 1
    pub clients: [u64; 2],
    pub gc: bool,
    pub pre: usize,
    pub edits: usize,
    pub awsets: usize,
}

struct Peer {
    rep: Replica,
    aw: Awareness,
    started: bool,
}

struct WH {
    peers: Vec<Peer>,
    chan: [VecDeque<Vec<u8>>; 2],
    go: bool,
    npre: usize,
    nops: usize,
    edits: usize,
    awsets: usize,
    crossed: u64,
    last_pre_edit: bool,
}

type Reg = BTreeMap<u64, (u32, Option<String>)>;

fn read_reg(aw: &Awareness) -> Reg {
    aw.iter().map(|(c, s)| (c.get(), (s.clock, s.data.as_ref().map(|d| d.to_string())))).collect()
}

type Verdict = (String, String);

fn decode_all(payload: &[u8]) -> Result<Vec<Message>, String> {
    let mut dec = DecoderV1::new(Cursor::new(payload));
    let mut reader = MessageReader::new(&mut dec);
    let mut out = Vec::new();
    while let Some(m) = reader.next() {
        out.push(m.map_err(|e| e.to_string())?);
    }
    Ok(out)
}

/// canonical rendering of a channel (awareness updates are maps written in hash order)
fn canon_chan(c: &VecDeque<Vec<u8>>) -> Vec<String> {
    c.iter()
        .map(|p| match decode_all(p) {
            Ok(ms) => ms
                .iter()
                .map(|m| match m {
                    Message::Awareness(u) => format!("aw{:?}", from_update(u)),
                    other => format!("{:?}", other.encode_v1()),
                })
                .collect::<Vec<_>>()
                .join("|"),
            Err(_) => format!("{:?}", p),
        })
        .collect()
}

impl WH {
    fn new(cfg: &HCfg) -> WH {
        let peers = cfg
            .clients
            .iter()
            .map(|&client| {
                let rep = Replica::new(RCfg { client, gc: cfg.gc, utf16: true, cleanup: false });
                let mut aw = Awareness::with_clock(rep.doc.clone(), || 0u64);
                aw.set_local_state_raw(format!("\"init{}\"", client));
                Peer { rep, aw, started: false }
            })
            .collect();
        WH { peers, chan: [VecDeque::new(), VecDeque::new()], go: false, npre: 0, nops: 0, edits: 0, awsets: 0, crossed: 0, last_pre_edit: false }
    }

    /// a payload crosses the channel towards `dst`: framing must survive decode / encode
    fn send(&mut self, dst: usize, payload: Vec<u8>) -> Result<(), Verdict> {
        let msgs = decode_all(&payload).map_err(|e| ("message-does-not-decode".to_string(), format!("payload {:?}: {}", payload, e)))?;
        let mut enc = EncoderV1::new();
        for m in &msgs {
            m.encode(&mut enc);
        }
        let again = enc.to_vec();
        // (an awareness update of several clients is written in hash order: compare values, not bytes)
        let back = decode_all(&again).map_err(|e| ("message-roundtrip".to_string(), format!("re-encoded payload {:?} does not decode: {}", again, e)))?;
        if msgs.is_empty() || back != msgs || again.len() != payload.len() {
            return Err(("message-roundtrip".into(), format!("payload {:?} holds {:?} and re-encodes as {:?} = {:?}", payload, msgs, again, back)));
        }
        self.crossed += msgs.len() as u64;
        self.chan[dst].push_back(payload);
        Ok(())
    }

    fn step(&mut self, a: &H) -> Result<(), Verdict> {
        let harness = |e: String| ("harness".to_string(), e);
        match a {
            H::Pre(p, op) | H::Edit(p, op) => {
                let peer = &self.peers[*p];
                peer.rep.capture.borrow_mut().clear();
                {
                    let mut txn = peer.rep.doc.transact_mut();
                    apply_real(&peer.rep.roots, &mut txn, peer.rep.cfg.kind(), op).map_err(harness)?;
                }
                self.nops += 1;
                let evs: Vec<(bool, Vec<u8>)> = peer.rep.capture.borrow_mut().drain(..).collect();
                if matches!(a, H::Edit(..)) {
                    self.edits += 1;
                    for (v2, bytes) in evs {
                        if !v2 {
                            self.send(1 - *p, Message::Sync(SyncMessage::Update(bytes)).encode_v1())?;
                        }
                    }
                } else {
                    self.npre += 1;
                }
                self.last_pre_edit = matches!(a, H::Pre(..));
            }
            H::PreSync => {
                let s0 = self.peers[0].rep.full_state(false);
                let s1 = self.peers[1].rep.full_state(false);
                self.peers[0].rep.apply(&s1, false).map_err(harness)?;
                self.peers[1].rep.apply(&s0, false).map_err(harness)?;
                self.last_pre_edit = false;
            }
            H::PreDeliver(p) => {
                let s = self.peers[1 - *p].rep.full_state(false);
                self.peers[*p].rep.apply(&s, false).map_err(harness)?;
                self.last_pre_edit = false;
            }
            H::Go => {
                self.go = true;
                for p in &self.peers {
                    p.rep.capture.borrow_mut().clear();
                }
            }
            H::Connect(p) => {
                let mut enc = EncoderV1::new();
                DefaultProtocol
                    .start(&self.peers[*p].aw, &mut enc)
                    .map_err(|e| ("start-failed".to_string(), format!("Protocol::start on peer {}: {}", p, e)))?;
                self.peers[*p].started = true;
                self.send(1 - *p, enc.to_vec())?;
            }
            H::Recv(p) => {
                let payload = self.chan[*p].pop_front().ok_or_else(|| harness("empty channel".into()))?;
                let replies = DefaultProtocol
                    .handle(&mut self.peers[*p].aw, &payload)
                    .map_err(|e| ("handle-failed".to_string(), format!("Protocol::handle on peer {} for payload {:?}: {}", p, payload, e)))?;
                self.peers[*p].rep.capture.borrow_mut().clear();
                for m in replies.iter() {
                    self.send(1 - *p, m.encode_v1())?;
                }
            }
            H::AwSet(p) => {
                self.awsets += 1;
                let n = self.awsets;
                let peer = &mut self.peers[*p];
                peer.aw.set_local_state_raw(format!("\"s{}\"", n));
                let me = peer.aw.client_id();
                let u = peer.aw.update_with_clients([me]).map_err(|e| ("awareness-update-failed".to_string(), e.to_string()))?;
                self.send(1 - *p, Message::Awareness(u).encode_v1())?;
            }
        }
        self.judge()
    }

    fn quiescent(&self) -> bool {
        self.go && self.peers.iter().all(|p| p.started) && self.chan.iter().all(|c| c.is_empty())
    }

    fn judge(&self) -> Result<(), Verdict> {
        if !self.quiescent() {
            return Ok(());
        }
        let (a, b) = (&self.peers[0], &self.peers[1]);
        let (da, db) = (a.rep.dump(), b.rep.dump());
        if da != db {
            return Err(("documents-differ-at-quiescence".into(), format!("peer0 {} vs peer1 {}", show_model(&da), show_model(&db))));
        }
        if a.rep.sv() != b.rep.sv() {
            return Err(("state-vectors-differ-at-quiescence".into(), format!("{:?} vs {:?}", a.rep.sv(), b.rep.sv())));
        }
        if a.rep.pending() || b.rep.pending() {
            return Err(("pending-at-quiescence".into(), format!("pending: peer0 {} peer1 {}", a.rep.pending(), b.rep.pending())));
        }
        let (ra, rb) = (read_reg(&a.aw), read_reg(&b.aw));
        if ra != rb {
            return Err(("awareness-differs-at-quiescence".into(), format!("{:?} vs {:?}", ra, rb)));
        }
        Ok(())
    }

    fn key(&self) -> u64 {
        let dumps: Vec<yrs::verif::StoreDump> = self.peers.iter().map(|p| p.rep.store_dump()).collect();
        let regs: Vec<Reg> = self.peers.iter().map(|p| read_reg(&p.aw)).collect();
        let started: Vec<bool> = self.peers.iter().map(|p| p.started).collect();
        hash_of(&(dumps, regs, started, canon_chan(&self.chan[0]), canon_chan(&self.chan[1]), self.go, self.npre, self.edits, self.awsets, self.last_pre_edit))
    }

    fn enabled(&self, cfg: &HCfg) -> Vec<H> {
        let mut out = Vec::new();
        if !self.go {
            if self.npre < cfg.pre {
                for p in 0..2 {
                    for op in gen_ops(cfg.fam, &self.peers[p].rep.dump(), self.nops, cfg.level) {
                        out.push(H::Pre(p, op));
                    }
                }
            }
            if self.last_pre_edit {
                out.push(H::PreSync);
                out.push(H::PreDeliver(0));
                out.push(H::PreDeliver(1));
            }
            out.push(H::Go);
            return out;
        }
        for p in 0..2 {
            if !self.peers[p].started {
                out.push(H::Connect(p));
            }
            if !self.chan[p].is_empty() {
                out.push(H::Recv(p));
            }
        }
        if self.edits < cfg.edits {
            for p in 0..2 {
                for op in gen_ops(cfg.fam, &self.peers[p].rep.dump(), self.nops, cfg.level) {
                    out.push(H::Edit(p, op));
                }
            }
        }
        if self.awsets < cfg.awsets {
            for p in 0..2 {
                out.push(H::AwSet(p));
            }
        }
        out
    }
}

fn h_bounds(tier: Tier) -> Vec<HCfg> {
    let c = |fam, level, clients, gc, pre, edits, awsets| HCfg { fam, level, clients, gc, pre, edits, awsets };
    match tier {
        Tier::Quick => vec![
            c(Fam::Txt, 0, [3, 5], true, 2, 1, 0),
            c(Fam::Txt, 0, [5, 3], true, 1, 1, 1),
            c(Fam::Map, 0, [3, 5], true, 2, 1, 0),
            c(Fam::Arr, 0, [5, 3], false, 1, 1, 0),
        ],
        Tier::Thorough => vec![
            c(Fam::Txt, 0, [3, 5], true, 2, 2, 0),
            c(Fam::Txt, 0, [5, 3], true, 3, 1, 0),
            c(Fam::Txt, 0, [3, 5], false, 2, 1, 1),
            c(Fam::Map, 0, [3, 5], true, 2, 2, 0),
            c(Fam::Map, 1, [5, 3], true, 2, 1, 1),
            c(Fam::Arr, 0, [5, 3], true, 2, 2, 0),
            c(Fam::Nest, 0, [3, 5], true, 2, 1, 0),
            c(Fam::Xml, 0, [3, 5], true, 2, 1, 0),
        ],
    }
}

fn h_build(cfg: &HCfg, trace: &[H]) -> (WH, Option<Verdict>) {
    let mut w = WH::new(cfg);
    for a in trace {
        if let Err(e) = w.step(a) {
            return (w, Some(e));
        }
    }
    (w, None)
}

fn h_dfs(ctx: &mut Ctx, cfg: &HCfg, trace: &mut Vec<H>, visited: &mut HashSet<u64>, idx: &mut u64) {
    if ctx.out_of_time() {
        return;
    }
    let case = json!({"part": "handshake", "cfg": cfg, "trace": trace});
    let cj = || case.clone();
    let res = ctx.exec(&cj, |ctx| {
        ctx.count("transitions", 1);
        h_build(cfg, trace)
    });
    let Some((w, verdict)) = res else { return };
    if let Some((class, msg)) = verdict {
        if class == "harness" {
            ctx.machinery_error(format!("{} on {}", msg, case));
        } else {
            ctx.violation("handshake", &class, msg, cj());
        }
        return;
    }
    let key = w.key();
    if !visited.insert(key) {
        ctx.count("pruned_revisits", 1);
        return;
    }
    ctx.state(key);
    if w.quiescent() {
        ctx.count("quiescent_states", 1);
        ctx.count("messages_crossed_at_quiescence", w.crossed);
        ctx.outcome(hash_of(&(w.peers[0].rep.dump(), read_reg(&w.peers[0].aw))));
        ctx.sample(cj);
    }
    let acts = w.enabled(cfg);
    drop(w);
    for a in acts {
        if trace.len() == 2 {
            *idx += 1;
            if !ctx.mine(*idx) {
                continue;
            }
        }
        trace.push(a);
        h_dfs(ctx, cfg, trace, visited, idx);
        trace.pop();
    }
}

// ---------------------------------------------------------------------------------------------
// Part A — awareness registers
// ---------------------------------------------------------------------------------------------

type AUpd = BTreeMap<u64, (u32, String)>;

#[derive(Clone, Debug, PartialEq, Eq, Hash, PartialOrd, Ord, Serialize, Deserialize)]
pub struct AState {
    pub peers: Vec<Reg>,
    pub pool: BTreeSet<AUpd>,
}

#[derive(Clone, Debug, PartialEq, Eq, Hash, Serialize, Deserialize)]
pub enum AAct {
    Set(usize, u8),
    Clean(usize),
    Timeout(usize, u64),
    EmitLive(usize),
    EmitKnown(usize),
    EmitOne(usize, u64),
    Deliver(usize, AUpd),
}

const ACLIENTS: [u64; 3] = [1, 2, 3];

fn to_update(u: &AUpd) -> AwarenessUpdate {
    let mut clients = HashMap::new();
    for (c, (clock, json)) in u {
        clients.insert(ClientID::new(*c), AwarenessUpdateEntry { clock: *clock, json: Arc::from(json.as_str()) });
    }
    AwarenessUpdate { clients }
}

fn from_update(u: &AwarenessUpdate) -> AUpd {
    u.clients.iter().map(|(c, e)| (c.get(), (e.clock, e.json.to_string()))).collect()
}

/// a real Awareness holding exactly `reg` (entries enter through the vacant branch of apply_update)
fn materialise(p: usize, reg: &Reg) -> Result<Awareness, String> {
    let doc = Doc::with_client_id(ACLIENTS[p]);
    let mut aw = Awareness::with_clock(doc, || 0u64);
    if !reg.is_empty() {
        let u: AUpd = reg.iter().map(|(c, (k, d))| (*c, (*k, d.clone().unwrap_or_else(|| "null".to_string())))).collect();
        aw.apply_update(to_update(&u)).map_err(|e| e.to_string())?;
    }
    let back = read_reg(&aw);
    if &back != reg {
        return Err(format!("cannot materialise {:?}: a fresh Awareness that is handed exactly these entries holds {:?} (an update about a client it has never heard of must be recorded with its clock, also when it is a removal)", reg, back));
    }
    Ok(aw)
}

fn apply_to(p: usize, reg: &Reg, us: &[&AUpd]) -> Result<Reg, String> {
    let mut aw = materialise(p, reg)?;
    for u in us {
        aw.apply_update(to_update(u)).map_err(|e| format!("apply_update failed: {}", e))?;
    }
    Ok(read_reg(&aw))
}

fn a_enabled(s: &AState, npeers: usize) -> Vec<AAct> {
    let mut out = Vec::new();
    for p in 0..npeers {
        out.push(AAct::Set(p, 0));
        out.push(AAct::Set(p, 1));
        out.push(AAct::Clean(p));
        for (c, (_, d)) in &s.peers[p] {
            if *c != ACLIENTS[p] && d.is_some() {
                out.push(AAct::Timeout(p, *c));
            }
        }
        if s.peers[p].values().any(|(_, d)| d.is_some()) {
            out.push(AAct::EmitLive(p));
        }
        if s.peers[p].values().any(|(_, d)| d.is_none()) {
            out.push(AAct::EmitKnown(p));
        }
        if s.peers[p].len() > 1 {
            for c in s.peers[p].keys() {
                out.push(AAct::EmitOne(p, *c));
            }
        }
        for u in &s.pool {
            out.push(AAct::Deliver(p, u.clone()));
        }
    }
    out
}

/// one transition on the real code; Err((class, msg)) is a verdict
fn a_step(s: &AState, a: &AAct) -> Result<AState, Verdict> {
    let h = |e: String| ("harness".to_string(), e);
    let mut n = s.clone();
    match a {
        AAct::Set(p, _) | AAct::Clean(p) | AAct::Timeout(p, _) => {
            let mut aw = materialise(*p, &s.peers[*p]).map_err(|e| ("update-about-unknown-client-not-recorded".to_string(), e))?;
            let me = ACLIENTS[*p];
            let target = match a {
                AAct::Set(_, v) => {
                    aw.set_local_state_raw(if *v == 0 { "\"A\"" } else { "\"B\"" });
                    me
                }
                AAct::Clean(_) => {
                    aw.clean_local_state();
                    me
                }
                AAct::Timeout(_, c) => {
                    aw.remove_state(ClientID::new(*c));
                    *c
                }
                _ => unreachable!(),
            };
            let after = read_reg(&aw);
            let before = &s.peers[*p];
            for (c, v) in before {
                if *c != target && after.get(c) != Some(v) {
                    return Err(("local-action-touches-other-client".into(), format!("{:?} on {:?}: client {} {:?} -> {:?}", a, before, c, v, after.get(c))));
                }
            }
            let kb = before.get(&target).map(|x| x.0).unwrap_or(0);
            let (ka, da) = after.get(&target).cloned().ok_or_else(|| ("local-action-lost-entry".to_string(), format!("{:?} on {:?}", a, before)))?;
            if ka <= kb {
                return Err(("clock-not-increased-by-local-action".into(), format!("{:?} on {:?}: clock {} -> {}", a, before, kb, ka)));
            }
            let want = match a {
                AAct::Set(_, v) => Some(if *v == 0 { "\"A\"".to_string() } else { "\"B\"".to_string() }),
                _ => None,
            };
            if da != want {
                return Err(("local-action-wrong-state".into(), format!("{:?} on {:?}: state {:?}", a, before, da)));
            }
            n.peers[*p] = after;
        }
        AAct::EmitLive(p) | AAct::EmitKnown(p) | AAct::EmitOne(p, _) => {
            let aw = materialise(*p, &s.peers[*p]).map_err(|e| ("update-about-unknown-client-not-recorded".to_string(), e))?;
            let reg = &s.peers[*p];
            let (u, want): (AwarenessUpdate, AUpd) = match a {
                AAct::EmitLive(_) => (
                    aw.update().map_err(|e| ("update-failed".to_string(), e.to_string()))?,
                    reg.iter().filter(|(_, (_, d))| d.is_some()).map(|(c, (k, d))| (*c, (*k, d.clone().unwrap()))).collect(),
                ),
                AAct::EmitKnown(_) => (
                    aw.update_with_clients(reg.keys().map(|c| ClientID::new(*c))).map_err(|e| ("update-failed".to_string(), e.to_string()))?,
                    reg.iter().map(|(c, (k, d))| (*c, (*k, d.clone().unwrap_or_else(|| "null".into())))).collect(),
                ),
                AAct::EmitOne(_, c) => (
                    aw.update_with_clients([ClientID::new(*c)]).map_err(|e| ("update-failed".to_string(), e.to_string()))?,
                    reg.iter().filter(|(x, _)| *x == c).map(|(c, (k, d))| (*c, (*k, d.clone().unwrap_or_else(|| "null".into())))).collect(),
                ),
                _ => unreachable!(),
            };
            let got = from_update(&u);
            if got != want {
                return Err(("update-misreports-registers".into(), format!("{:?} on {:?}: update {:?}, expected {:?}", a, reg, got, want)));
            }
            // the update survives the wire
            let bytes = u.encode_v1();
            match AwarenessUpdate::decode_v1(&bytes) {
                Ok(d) if from_update(&d) == got => {}
                other => return Err(("update-roundtrip".into(), format!("{:?} encodes to {:?} and decodes to {:?}", got, bytes, other.map(|d| from_update(&d)).map_err(|e| e.to_string())))),
            }
            if !got.is_empty() {
                n.pool.insert(got);
            }
        }
        AAct::Deliver(p, u) => {
            let before = &s.peers[*p];
            let after = apply_to(*p, before, &[u]).map_err(|e| (if e.starts_with("cannot materialise") { "update-about-unknown-client-not-recorded" } else { "apply-failed" }.to_string(), e))?;
            let me = ACLIENTS[*p];
            for (c, v) in before {
                let now = after.get(c);
                let Some(now) = now else {
                    return Err(("entry-lost".into(), format!("deliver {:?} to {:?}: client {} vanished", u, before, c)));
                };
                if !u.contains_key(c) && now != v {
                    return Err(("untouched-client-changed".into(), format!("deliver {:?} to {:?}: client {} {:?} -> {:?}", u, before, c, v, now)));
                }
                if now.0 < v.0 {
                    return Err(("clock-went-backwards".into(), format!("deliver {:?} to {:?}: client {} clock {} -> {}", u, before, c, v.0, now.0)));
                }
                if let Some((uk, _)) = u.get(c) {
                    if *uk < v.0 && now != v {
                        return Err(("lower-clock-replaced-higher".into(), format!("deliver {:?} to {:?}: client {} {:?} -> {:?}", u, before, c, v, now)));
                    }
                }
                if *c == me && v.1.is_some() && now.1.is_none() {
                    return Err(("own-live-state-erased".into(), format!("deliver {:?} to peer {} {:?}: own state became null", u, me, before)));
                }
            }
            for (c, (uk, uj)) in u {
                let ud = if uj == "null" { None } else { Some(uj.clone()) };
                let now = after.get(c).cloned();
                match before.get(c) {
                    None => {
                        if now != Some((*uk, ud.clone())) {
                            return Err(("new-client-not-recorded".into(), format!("deliver {:?} to {:?}: client {} recorded as {:?}", u, before, c, now)));
                        }
                    }
                    Some((bk, bd)) => {
                        let protect = *c == me && bd.is_some() && ud.is_none();
                        if *uk > *bk && !protect && now != Some((*uk, ud.clone())) {
                            return Err(("higher-clock-did-not-win".into(), format!("deliver {:?} to {:?}: client {} is {:?}", u, before, c, now)));
                        }
                    }
                }
            }
            // idempotence
            let twice = apply_to(*p, &after, &[u]).map_err(|e| (if e.starts_with("cannot materialise") { "update-about-unknown-client-not-recorded" } else { "apply-failed" }.to_string(), e))?;
            if twice != after {
                return Err(("not-idempotent".into(), format!("deliver {:?} twice to {:?}: {:?} then {:?}", u, before, after, twice)));
            }
            n.peers[*p] = after;
        }
    }
    Ok(n)
}

/// every ordered pair of pooled updates commutes on every peer
fn a_pairs(s: &AState) -> Result<u64, Verdict> {
    let pool: Vec<&AUpd> = s.pool.iter().collect();
    let mut n = 0;
    for p in 0..s.peers.len() {
        for i in 0..pool.len() {
            for j in (i + 1)..pool.len() {
                let ab = apply_to(p, &s.peers[p], &[pool[i], pool[j]]).map_err(|e| (if e.starts_with("cannot materialise") { "update-about-unknown-client-not-recorded" } else { "apply-failed" }.to_string(), e))?;
                let ba = apply_to(p, &s.peers[p], &[pool[j], pool[i]]).map_err(|e| (if e.starts_with("cannot materialise") { "update-about-unknown-client-not-recorded" } else { "apply-failed" }.to_string(), e))?;
                n += 2;
                if ab != ba {
                    return Err(("order-sensitive".into(), format!("peer {} {:?}: {:?} then {:?} gives {:?}, the other order {:?}", ACLIENTS[p], s.peers[p], pool[i], pool[j], ab, ba)));
                }
            }
        }
    }
    Ok(n)
}

fn permutations(n: usize) -> Vec<Vec<usize>> {
    fn rec(cur: &mut Vec<usize>, used: &mut Vec<bool>, out: &mut Vec<Vec<usize>>) {
        if cur.len() == used.len() {
            out.push(cur.clone());
            return;
        }
        for i in 0..used.len() {
            if !used[i] {
                used[i] = true;
                cur.push(i);
                rec(cur, used, out);
                cur.pop();
                used[i] = false;
            }
        }
    }
    let mut out = Vec::new();
    rec(&mut Vec::new(), &mut vec![false; n], &mut out);
    out
}

/// every permutation of every subset of <= k pooled updates gives the same registers
fn a_perms(s: &AState, k: usize) -> Result<u64, Verdict> {
    let pool: Vec<&AUpd> = s.pool.iter().collect();
    let mut n = 0;
    for mask in 1u32..(1 << pool.len()) {
        let sz = mask.count_ones() as usize;
        if sz < 3 || sz > k {
            continue;
        }
        let sel: Vec<&AUpd> = (0..pool.len()).filter(|i| mask & (1 << i) != 0).map(|i| pool[i]).collect();
        for p in 0..s.peers.len() {
            let mut first: Option<Reg> = None;
            for perm in permutations(sz) {
                let order: Vec<&AUpd> = perm.iter().map(|&i| sel[i]).collect();
                let r = apply_to(p, &s.peers[p], &order).map_err(|e| (if e.starts_with("cannot materialise") { "update-about-unknown-client-not-recorded" } else { "apply-failed" }.to_string(), e))?;
                n += 1;
                match &first {
                    None => first = Some(r),
                    Some(f) if *f != r => {
                        return Err(("order-sensitive".into(), format!("peer {} {:?}: updates {:?} in order {:?} give {:?}, in index order {:?}", ACLIENTS[p], s.peers[p], sel, perm, r, f)));
                    }
                    _ => {}
                }
            }
        }
    }
    Ok(n)
}

/// exchange full updates until nothing changes; then all peers agree on every client
fn a_converge(s: &AState) -> Result<(), Verdict> {
    let mut regs = s.peers.clone();
    for round in 0..12 {
        let mut changed = false;
        for src in 0..regs.len() {
            if regs[src].is_empty() {
                continue;
            }
            let u: AUpd = regs[src].iter().map(|(c, (k, d))| (*c, (*k, d.clone().unwrap_or_else(|| "null".into())))).collect();
            for dst in 0..regs.len() {
                if dst == src {
                    continue;
                }
                let after = apply_to(dst, &regs[dst], &[&u]).map_err(|e| (if e.starts_with("cannot materialise") { "update-about-unknown-client-not-recorded" } else { "apply-failed" }.to_string(), e))?;
                if after != regs[dst] {
                    changed = true;
                    regs[dst] = after;
                }
            }
        }
        if !changed {
            for p in 1..regs.len() {
                if regs[p] != regs[0] {
                    return Err(("peers-disagree-after-full-exchange".into(), format!("from {:?}: after {} rounds peer {} has {:?}, peer {} has {:?}", s.peers, round, ACLIENTS[0], regs[0], ACLIENTS[p], regs[p])));
                }
            }
            return Ok(());
        }
    }
    Err(("full-exchange-does-not-settle".into(), format!("from {:?}: still changing after 12 rounds: {:?}", s.peers, regs)))
}

fn a_bounds(tier: Tier) -> Vec<(usize, usize)> {
    // (peers, depth)
    match tier {
        Tier::Quick => vec![(2, 8), (3, 6)],
        Tier::Thorough => vec![(2, 10), (3, 8)],
    }
}

fn a_check_state(ctx: &mut Ctx, s: &AState, deepest: bool, case: &dyn Fn() -> Value) {
    let res = ctx.exec(case, |ctx| {
        let mut out: Vec<Verdict> = Vec::new();
        match a_pairs(s) {
            Ok(n) => ctx.count("transitions", n),
            Err(v) => out.push(v),
        }
        if deepest {
            match a_perms(s, 4) {
                Ok(n) => {
                    ctx.count("transitions", n);
                    ctx.count("permutation_runs", n);
                }
                Err(v) => out.push(v),
            }
        }
        if let Err(v) = a_converge(s) {
            out.push(v);
        }
        out
    });
    if let Some(vs) = res {
        for (class, msg) in vs {
            if class == "harness" {
                ctx.machinery_error(msg);
            } else {
                ctx.violation("awareness", &class, msg, case());
            }
        }
    }
}

fn a_bfs(ctx: &mut Ctx, npeers: usize, depth: usize) {
    let init = AState { peers: vec![Reg::new(); npeers], pool: BTreeSet::new() };
    let mut seen: HashSet<u64> = HashSet::new();
    seen.insert(hash_of(&init));
    let mut frontier = vec![init];
    for d in 0..=depth {
        let mut next = Vec::new();
        for (si, s) in frontier.iter().enumerate() {
            if ctx.out_of_time() {
                return;
            }
            // every worker walks the same graph; the per-state checks and expansions are sharded
            let mine = ctx.mine(si as u64);
            ctx.state(hash_of(&(npeers, s)));
            if mine {
                let case = json!({"part": "awareness", "state": s, "deepest": d == depth});
                let cj = || case.clone();
                a_check_state(ctx, s, d == depth, &cj);
                ctx.outcome(hash_of(&s.peers));
                if !s.pool.is_empty() {
                    ctx.sample(cj);
                }
            }
            if d == depth {
                continue;
            }
            for a in a_enabled(s, npeers) {
                let case = json!({"part": "awareness", "state": s, "act": a});
                let cj = || case.clone();
                // successor computation is cheap and needed by every worker; only the owner judges it
                let r = if mine {
                    ctx.count("transitions", 1);
                    ctx.exec(&cj, |_| a_step(s, &a))
                } else {
                    Some(a_step(s, &a))
                };
                match r {
                    Some(Ok(n)) => {
                        if seen.insert(hash_of(&n)) {
                            next.push(n);
                        }
                    }
                    Some(Err((class, msg))) => {
                        if mine {
                            if class == "harness" {
                                ctx.machinery_error(format!("{} on {}", msg, case));
                            } else {
                                ctx.violation("awareness", &class, msg, cj());
                            }
                        }
                    }
                    None => {}
                }
            }
        }
        next.sort();
        frontier = next;
    }
}

fn run(ctx: &mut Ctx) {
    let mut idx = 0u64;
    for cfg in h_bounds(ctx.tier) {
        let mut visited = HashSet::new();
        let mut trace = Vec::new();
        h_dfs(ctx, &cfg, &mut trace, &mut visited, &mut idx);
    }
    for (npeers, depth) in a_bounds(ctx.tier) {
        a_bfs(ctx, npeers, depth);
    }
}

fn replay(ctx: &mut Ctx, case: &Value) {
    let cj = || case.clone();
    match case["part"].as_str() {
        Some("handshake") => {
            let cfg: HCfg = match serde_json::from_value(case["cfg"].clone()) {
                Ok(c) => c,
                Err(e) => return ctx.machinery_error(format!("bad case: {}", e)),
            };
            let trace: Vec<H> = match serde_json::from_value(case["trace"].clone()) {
                Ok(c) => c,
                Err(e) => return ctx.machinery_error(format!("bad case: {}", e)),
            };
            if let Some((w, Some((class, msg)))) = ctx.exec(&cj, |_| h_build(&cfg, &trace)) {
                if std::env::var("VERIF_TRACE").is_ok() {
                    for p in &w.peers {
                        eprintln!("{}", show_store(&p.rep.store_dump()));
                    }
                }
                ctx.violation("handshake", &class, msg, cj());
            }
        }
        Some("awareness") => {
            let s: AState = match serde_json::from_value(case["state"].clone()) {
                Ok(c) => c,
                Err(e) => return ctx.machinery_error(format!("bad case: {}", e)),
            };
            if case.get("act").is_some() {
                let a: AAct = match serde_json::from_value(case["act"].clone()) {
                    Ok(c) => c,
                    Err(e) => return ctx.machinery_error(format!("bad case: {}", e)),
                };
                if let Some(Err((class, msg))) = ctx.exec(&cj, |_| a_step(&s, &a)) {
                    ctx.violation("awareness", &class, msg, cj());
                }
            } else {
                a_check_state(ctx, &s, case["deepest"].as_bool().unwrap_or(false), &cj);
            }
        }
        _ => ctx.machinery_error("bad case: no part".into()),
    }
}
