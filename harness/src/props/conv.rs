//! Shared driver for the multi-replica properties: enumerate histories on real replicas,
//! then explore every delivery order of each distinct update pool (subset lattice) for
//! fresh observers and for the author replicas; property-specific monitors judge every node.
use crate::engine::*;
use crate::model::*;
use crate::ops::*;
use crate::world::*;
use serde_json::{json, Value};
use std::collections::{BTreeMap, HashMap, HashSet};

#[derive(Clone, Debug)]
pub struct ConvBound {
    pub fam: Fam,
    pub level: u8,
    pub cfgs: Vec<RCfg>,
    pub depth: usize,
    pub budget: usize,
    /// deviation kinds allowed (world::K_*)
    pub kinds: u8,
    pub observers: Vec<RCfg>,
    pub authors_receive: bool,
    /// minimum pool size worth a lattice
    pub min_pool: usize,
}

pub fn rc(client: u64, gc: bool) -> RCfg {
    RCfg {
        client,
        gc,
        utf16: false,
        cleanup: true,
    }
}

pub fn obs(gc: bool) -> RCfg {
    RCfg {
        client: 900,
        gc,
        utf16: false,
        cleanup: false,
    }
}

pub trait Monitor {
    /// a new history state (called for every distinct world state, before any lattice)
    fn history_state(&mut self, _ctx: &mut Ctx, _w: &World, _trace: &[Act], _case: &dyn Fn() -> Value) {}
    /// called once per distinct pool, before its lattices; `w` is the world after `trace`
    fn begin_pool(&mut self, _ctx: &mut Ctx, _b: &ConvBound, _w: &World, _trace: &[Act]) {}
    /// every lattice node (receiver after `node.path`)
    fn node(&mut self, ctx: &mut Ctx, pool: &[Upd], node: &LatticeNode, case: &dyn Fn() -> Value);
    /// a new receiver base (fresh observer / author) starts
    fn begin_receiver(&mut self, _ctx: &mut Ctx, _who: &str) {}
}

pub fn case_json(b: &ConvBound, trace: &[Act], recv: &str, path: &[Edge]) -> Value {
    json!({"fam": b.fam, "level": b.level, "cfgs": b.cfgs, "trace": trace, "receiver": recv, "path": path})
}

/// Enumerate histories of every bound; for each distinct pool run the lattices.
pub fn run_conv(ctx: &mut Ctx, bounds: &[ConvBound], mon: &mut dyn Monitor) {
    let mut idx = 0u64;
    // YV_ONLY_CFG=k runs only the k-th configuration (for measuring one bound at a time)
    let only: Option<usize> = std::env::var("YV_ONLY_CFG").ok().and_then(|s| s.parse().ok());
    for (bi, b) in bounds.iter().enumerate() {
        if only.map(|k| k != bi).unwrap_or(false) {
            continue;
        }
        let t_cfg = std::time::Instant::now();
        let _ = &t_cfg;
        let h = HistCfg {
            fam: b.fam,
            level: b.level,
            cfgs: b.cfgs.clone(),
            depth: b.depth,
            syncs: b.cfgs.len() > 1,
            partial: 0,
        };
        let mut pools: HashSet<u64> = HashSet::new();
        let shard = ctx.shard;
        let nsh = ctx.nshards as u64;
        let mut first = |_i: u64| {
            idx += 1;
            (idx % nsh) as usize == shard
        };
        let label = format!("{}_R{}_L{}", b.fam.name(), b.cfgs.len(), b.depth);
        let mut visit = |ctx: &mut Ctx, w: &World, trace: &[Act]| {
            ctx.count(&format!("history_states_{}", label), 1);
            let hc = || case_json(b, trace, "history", &[]);
            mon.history_state(ctx, w, trace, &hc);
            if w.pool.len() < b.min_pool {
                return;
            }
            // histories reaching the same pool with the same author layouts were already covered
            let pk = if b.authors_receive {
                w.key()
            } else {
                w.pool_key()
            };
            if !pools.insert(pk) {
                return;
            }
            ctx.count(&format!("pools_{}", label), 1);
            check_pool(ctx, b, w, trace, mon);
        };
        explore_histories(ctx, &h, &mut first, &mut visit);
    }
}

pub fn check_pool(ctx: &mut Ctx, b: &ConvBound, w: &World, trace: &[Act], mon: &mut dyn Monitor) {
    mon.begin_pool(ctx, b, w, trace);
    let pool = w.pool.clone();
    for o in &b.observers {
        let who = format!("observer(gc={},cleanup={})", o.gc, o.cleanup);
        mon.begin_receiver(ctx, &who);
        let ocfg = *o;
        let base = move || -> Result<Receiver, String> {
            Ok(Receiver {
                world: World::new(&[ocfg]),
                r: 0,
                mask: 0,
            })
        };
        let cj = |p: &[Edge]| case_json(b, trace, &who, p);
        let mut visit = |ctx: &mut Ctx, node: &LatticeNode| {
            let c = || case_json(b, trace, &who, node.path);
            mon.node(ctx, &pool, node, &c);
            if node.full {
                ctx.sample(c);
            }
        };
        lattice(ctx, &pool, &base, b.budget, b.kinds, &cj, &mut visit);
    }
    if b.authors_receive {
        for r in 0..b.cfgs.len() {
            if w.reps[r].known.len() == pool.len() {
                continue;
            }
            let who = format!("author{}", r);
            mon.begin_receiver(ctx, &who);
            let cfgs = b.cfgs.clone();
            let tr = trace.to_vec();
            let base = move || -> Result<Receiver, String> {
                let w = World::build(&cfgs, &tr)?;
                let mask = mask_of(&w.reps[r].known);
                Ok(Receiver { world: w, r, mask })
            };
            let cj = |p: &[Edge]| case_json(b, trace, &who, p);
            let mut visit = |ctx: &mut Ctx, node: &LatticeNode| {
                let c = || case_json(b, trace, &who, node.path);
                mon.node(ctx, &pool, node, &c);
            };
            // authors: plain re-ordering only (deviations are covered on the observers)
            lattice(ctx, &pool, &base, b.budget.min(1), b.kinds & !K_V2, &cj, &mut visit);
        }
    }
}

/// Straight-line replay of one recorded case (no explorer).
pub fn replay_case(ctx: &mut Ctx, case: &Value, mon: &mut dyn Monitor, b0: &ConvBound) {
    let parsed = (|| -> Result<(ConvBound, Vec<Act>, String, Vec<Edge>), String> {
        let fam: Fam = serde_json::from_value(case["fam"].clone()).map_err(|e| e.to_string())?;
        let level: u8 = serde_json::from_value(case["level"].clone()).unwrap_or(0);
        let cfgs: Vec<RCfg> =
            serde_json::from_value(case["cfgs"].clone()).map_err(|e| e.to_string())?;
        let trace: Vec<Act> =
            serde_json::from_value(case["trace"].clone()).map_err(|e| e.to_string())?;
        let recv: String = case["receiver"].as_str().unwrap_or("history").to_string();
        let path: Vec<Edge> = serde_json::from_value(case["path"].clone()).unwrap_or_default();
        let mut b = b0.clone();
        b.fam = fam;
        b.level = level;
        b.cfgs = cfgs;
        Ok((b, trace, recv, path))
    })();
    let (b, trace, recv, path) = match parsed {
        Ok(x) => x,
        Err(e) => {
            ctx.machinery_error(format!("bad replay case: {}", e));
            return;
        }
    };
    let cj = || case.clone();
    ctx.exec(&cj, |ctx| {
        // history, step by step
        for k in 0..=trace.len() {
            let w = match World::build(&b.cfgs, &trace[..k]) {
                Ok(w) => w,
                Err(e) => {
                    ctx.violation(
                        "history-executes",
                        "history-step-error",
                        format!("legal history step failed: {}", e),
                        cj(),
                    );
                    return;
                }
            };
            mon.history_state(ctx, &w, &trace[..k], &cj);
            if std::env::var("VERIF_TRACE").is_ok() {
                eprintln!("--- after history step {} ({:?})", k, if k > 0 { Some(&trace[k - 1]) } else { None });
                for (i, rep) in w.reps.iter().enumerate() {
                    eprintln!("replica {}: {}\n{}", i, show_model(&rep.dump()), show_store(&rep.store_dump()));
                }
            }
            if k == trace.len() {
                mon.begin_pool(ctx, &b, &w, &trace);
                if recv == "history" {
                    return;
                }
                mon.begin_receiver(ctx, &recv);
                let pool = w.pool.clone();
                let mut r = if let Some(rest) = recv.strip_prefix("author") {
                    let ri: usize = rest.parse().unwrap_or(0);
                    let mask = mask_of(&w.reps[ri].known);
                    Receiver {
                        world: w,
                        r: ri,
                        mask,
                    }
                } else {
                    let gc = recv.contains("gc=true");
                    let cleanup = recv.contains("cleanup=true");
                    let mut o = obs(gc);
                    o.cleanup = cleanup;
                    Receiver {
                        world: World::new(&[o]),
                        r: 0,
                        mask: 0,
                    }
                };
                let n = pool.len();
                let full_mask: u32 = (1u32 << n) - 1;
                for i in 0..=path.len() {
                    if i > 0 {
                        if let Err(msg) = r.apply_edge(&pool, &path[i - 1]) {
                            ctx.violation(
                                "delivery-executes",
                                &format!("delivery-error:{}", msg.split(':').next().unwrap_or("")),
                                format!("applying a legitimate payload failed: {}", msg),
                                cj(),
                            );
                            return;
                        }
                    }
                    if std::env::var("VERIF_TRACE").is_ok() {
                        eprintln!("--- receiver after path step {}: {}\n{}", i, show_model(&r.rep().dump()), show_store(&r.rep().store_dump()));
                    }
                    if i > 0 && receiver_made_own_deletions(&pool_delete_points(&pool), r.mask, r.rep()) {
                        // (as in the search: a receiver that cleaned up marks on its own is not judged against the pool)
                        return;
                    }
                    let node = LatticeNode {
                        recv: &r,
                        path: &path[..i],
                        mask: r.mask,
                        full: r.mask == full_mask,
                        closed: closed(&pool, r.mask),
                    };
                    mon.node(ctx, &pool, &node, &cj);
                }
            }
        }
    });
}

// ---------------------------------------------------------------------------------------------
// C01 monitor: strong eventual consistency

#[derive(Default)]
pub struct C01Monitor {
    reference: Option<(Model, BTreeMap<u64, u32>)>,
    /// per delivered set: first visible dump seen at a causally closed set
    by_mask: HashMap<u32, (u64, String)>,
    /// author dumps recorded along the history: knowledge mask -> dump hash
    author_dumps: HashMap<u32, (u64, String)>,
}

pub fn show_model(m: &Model) -> String {
    m.iter()
        .filter(|(_, v)| match v {
            Node::Text(u) => !u.is_empty(),
            Node::Array(u) => !u.is_empty(),
            Node::Map(u) => !u.is_empty(),
            Node::XmlFragment(u) => !u.is_empty(),
            _ => true,
        })
        .map(|(k, v)| format!("{}={}", k, v.show()))
        .collect::<Vec<_>>()
        .join(" ")
}

impl Monitor for C01Monitor {
    fn begin_pool(&mut self, ctx: &mut Ctx, b: &ConvBound, w: &World, trace: &[Act]) {
        self.by_mask.clear();
        self.author_dumps.clear();
        self.reference = None;
        // reference replica: everything in emission order
        let r = Replica::new(obs(false));
        for u in &w.pool {
            if let Err(e) = r.apply(&u.v1, false) {
                ctx.violation(
                    "delivery-executes",
                    "reference-delivery-error",
                    format!("in-order delivery failed: {}", e),
                    case_json(b, trace, "reference", &[]),
                );
                return;
            }
        }
        // expected state vector: join of the authors' own clocks
        let mut sv = BTreeMap::new();
        for rep in &w.reps {
            for (c, k) in rep.sv() {
                let e = sv.entry(c).or_insert(0);
                if k > *e {
                    *e = k;
                }
            }
        }
        let dump = r.dump();
        if r.pending() || r.sv() != sv {
            ctx.violation(
                "convergence",
                "reference-incomplete",
                format!(
                    "in-order delivery of all updates leaves pending={} sv={:?} expected sv={:?}",
                    r.pending(),
                    r.sv(),
                    sv
                ),
                case_json(b, trace, "reference", &[]),
            );
        }
        ctx.outcome(hash_of(&dump));
        self.reference = Some((dump, sv));
        // author dumps along the history (their knowledge sets are causally closed)
        for k in 0..=trace.len() {
            if let Ok(wk) = World::build(&b.cfgs, &trace[..k]) {
                for rep in &wk.reps {
                    let d = rep.dump();
                    self.author_dumps
                        .entry(mask_of(&rep.known))
                        .or_insert_with(|| (hash_of(&d), show_model(&d)));
                }
            }
        }
    }

    fn node(&mut self, ctx: &mut Ctx, _pool: &[Upd], node: &LatticeNode, case: &dyn Fn() -> Value) {
        let Some((refd, refsv)) = self.reference.as_ref() else {
            return;
        };
        let rep = node.recv.rep();
        if !node.closed {
            return;
        }
        let pending = rep.pending();
        let dump = rep.dump();
        let gapped_path = path_gapped(node);
        if pending {
            ctx.violation(
                "convergence",
                if node.full {
                    "pending-after-all-delivered"
                } else {
                    "pending-at-causally-closed-set"
                },
                format!(
                    "delivered set {:#b} is causally closed but the replica still reports missing updates; content {} (path had a causal gap: {})",
                    node.mask,
                    show_model(&dump),
                    gapped_path
                ),
                case(),
            );
            return;
        }
        if node.full {
            let sv = rep.sv();
            if &dump != refd {
                ctx.violation(
                    "convergence",
                    "content-differs-after-all-delivered",
                    format!(
                        "all updates delivered: content {} but reference (emission order) {}",
                        show_model(&dump),
                        show_model(refd)
                    ),
                    case(),
                );
            } else if &sv != refsv {
                ctx.violation(
                    "convergence",
                    "state-vector-differs-after-all-delivered",
                    format!("all updates delivered: sv {:?} expected {:?}", sv, refsv),
                    case(),
                );
            }
        }
        let h = hash_of(&dump);
        match self.by_mask.get(&node.mask) {
            Some((h0, s0)) if *h0 != h => {
                ctx.violation(
                    "convergence",
                    "order-dependent-content-at-closed-set",
                    format!(
                        "delivered set {:#b}: content {} on this path but {} on another",
                        node.mask,
                        show_model(&dump),
                        s0
                    ),
                    case(),
                );
            }
            Some(_) => {}
            None => {
                self.by_mask.insert(node.mask, (h, show_model(&dump)));
            }
        }
        if let Some((ha, sa)) = self.author_dumps.get(&node.mask) {
            if *ha != h {
                ctx.violation(
                    "convergence",
                    "differs-from-author-with-same-knowledge",
                    format!(
                        "delivered set {:#b}: content {} but an author replica with exactly this knowledge showed {}",
                        node.mask,
                        show_model(&dump),
                        sa
                    ),
                    case(),
                );
            }
        }
    }

    fn begin_receiver(&mut self, _ctx: &mut Ctx, _who: &str) {}
}

/// true if some prefix of the path delivered a set that was not causally closed
pub fn path_gapped(node: &LatticeNode) -> bool {
    // the harness cannot recompute closedness without the pool here; callers that need it use
    // `closed()`; this is informational only
    node.path.len() > 0 && !node.closed
}
