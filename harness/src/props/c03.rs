//! C03 — each shared type behaves like its sequential data structure on one replica.
//! Every program of <= L calls over a family, every transaction grouping, both offset
//! kinds, gc on/off; after every call and every commit the real type is read back and
//! compared with the reference model.
use crate::engine::*;
use crate::model::*;
use crate::ops::*;
use serde::{Deserialize, Serialize};
use serde_json::{json, Value};
use yrs::{Array, Doc, GetString, Map, OffsetKind, Options, Text, Transact, XmlFragment};

pub fn def() -> PropDef {
    PropDef {
        id: "C03",
        title: "sequential data-structure semantics on one replica",
        shards: |t| t.pick(32, 128),
        run,
        replay,
        rule: "all programs of <= L API calls per family (positions {0,mid,end}, unique tags) x all commit groupings x {Bytes,Utf16} x gc on/off, executed on a real Doc; model comparison after every call and commit. states = distinct (config, model state); distinct_nontrivial = distinct final visible dumps",
        assumptions: &[
            "reference model = Vec of units with attributes / Vec / BTreeMap / tree (harness/src/ops.rs apply_model)",
            "arguments always in range and on character boundaries",
            "one attribute key per call (hash-order independence)",
        ],
    }
}

#[derive(Clone, Debug, Serialize, Deserialize)]
pub struct Case {
    pub fam: Fam,
    pub utf16: bool,
    pub gc: bool,
    pub level: u8,
    /// (op, commit after it)
    pub prog: Vec<(Op, bool)>,
}

fn bounds(tier: Tier) -> Vec<(Fam, usize, u8)> {
    match tier {
        Tier::Quick => vec![
            (Fam::Txt, 4, 1),
            (Fam::Rtx, 3, 1),
            (Fam::Rtx, 3, 3),
            (Fam::Rtx, 4, 4),
            (Fam::Uni, 3, 0),
            (Fam::Arr, 4, 1),
            (Fam::Map, 4, 2),
            (Fam::Xml, 4, 0),
            (Fam::Nest, 3, 0),
        ],
        Tier::Thorough => vec![
            (Fam::Txt, 6, 1),
            (Fam::Rtx, 4, 2),
            (Fam::Rtx, 4, 3),
            (Fam::Rtx, 5, 4),
            (Fam::Uni, 4, 1),
            (Fam::Arr, 5, 2),
            (Fam::Map, 5, 2),
            (Fam::Xml, 4, 1),
            (Fam::Nest, 4, 1),
        ],
    }
}

fn enumerate(
    fam: Fam,
    level: u8,
    depth: usize,
    model: &Model,
    prog: &mut Vec<Op>,
    f: &mut dyn FnMut(&[Op]),
) {
    if prog.len() == depth {
        f(prog);
        return;
    }
    let ops = gen_ops(fam, model, prog.len(), level);
    if ops.is_empty() {
        f(prog);
        return;
    }
    for op in ops {
        let mut m = model.clone();
        if apply_model(&mut m, &op).is_err() {
            continue;
        }
        prog.push(op);
        enumerate(fam, level, depth, &m, prog, f);
        prog.pop();
    }
}

fn run(ctx: &mut Ctx) {
    let mut idx = 0u64;
    for (fam, depth, level) in bounds(ctx.tier) {
        let mut progs: Vec<Vec<Op>> = Vec::new();
        // shard on the complete program index (enumeration is pure model work, cheap)
        enumerate(fam, level, depth, &empty_model(), &mut Vec::new(), &mut |p| {
            idx += 1;
            if (idx % ctx.nshards as u64) as usize == ctx.shard {
                progs.push(p.to_vec());
            }
        });
        ctx.count(&format!("programs_{}", fam.name()), progs.len() as u64);
        for p in progs {
            if ctx.out_of_time() {
                return;
            }
            let n = p.len();
            let masks = 1u32 << n.saturating_sub(1);
            for mask in 0..masks {
                for utf16 in [false, true] {
                    for gc in [true, false] {
                        // gc only matters when something is deleted
                        if !gc && !p.iter().any(|o| o.is_delete() || matches!(o, Op::MSet { .. } | Op::TDelta { .. } | Op::MTryUpdate{..} | Op::MGetOrInit{..})) {
                            continue;
                        }
                        if utf16 && !matches!(fam, Fam::Txt | Fam::Rtx | Fam::Uni | Fam::Xml) {
                            continue;
                        }
                        let case = Case {
                            fam,
                            utf16,
                            gc,
                            level,
                            prog: p
                                .iter()
                                .enumerate()
                                .map(|(i, o)| (o.clone(), i + 1 == n || mask & (1 << i) != 0))
                                .collect(),
                        };
                        let cj = || serde_json::to_value(&case).unwrap();
                        ctx.exec(&cj, |ctx| run_case(ctx, &case));
                        ctx.sample(cj);
                    }
                }
            }
        }
    }
}

fn replay(ctx: &mut Ctx, case: &Value) {
    match serde_json::from_value::<Case>(case.clone()) {
        Ok(c) => {
            let cj = || case.clone();
            ctx.exec(&cj, |ctx| run_case(ctx, &c));
        }
        Err(e) => ctx.machinery_error(format!("bad case: {}", e)),
    }
}

pub fn run_case(ctx: &mut Ctx, case: &Case) {
    let kind = if case.utf16 {
        OffsetKind::Utf16
    } else {
        OffsetKind::Bytes
    };
    let mut o = Options::with_client_id(yrs::ClientID::new(1));
    o.offset_kind = kind;
    o.skip_gc = !case.gc;
    let doc = Doc::with_options(o);
    let roots = Roots::new(&doc);
    let mut model = empty_model();
    let cj = || serde_json::to_value(case).unwrap();
    let mut txn = None;
    for (step, (op, commit)) in case.prog.iter().enumerate() {
        if txn.is_none() {
            txn = Some(doc.transact_mut());
        }
        let t = txn.as_mut().unwrap();
        if let Err(e) = apply_real(&roots, t, kind, op) {
            ctx.violation(
                "model-agreement",
                "target-unresolvable",
                format!("step {}: {} (model says target exists)", step, e),
                cj(),
            );
            return;
        }
        if let Err(e) = apply_model(&mut model, op) {
            ctx.machinery_error(format!("model rejects op {:?}: {}", op, e));
            return;
        }
        ctx.count("transitions", 1);
        if !compare(ctx, &roots, t, kind, &model, step, "in-txn", &cj) {
            return;
        }
        if *commit {
            txn = None;
            let rt = doc.transact();
            if !compare(ctx, &roots, &rt, kind, &model, step, "after-commit", &cj) {
                return;
            }
        }
    }
    drop(txn);
    ctx.state(hash_of(&(case.utf16, case.gc, &model)));
    ctx.outcome(hash_of(&model));
}

fn compare<T: yrs::ReadTxn>(
    ctx: &mut Ctx,
    roots: &Roots,
    txn: &T,
    kind: OffsetKind,
    model: &Model,
    step: usize,
    at: &str,
    cj: &dyn Fn() -> Value,
) -> bool {
    let real = roots.dump_all(txn);
    if &real != model {
        for (k, v) in model {
            if real.get(k) != Some(v) {
                ctx.violation(
                    "model-agreement",
                    &format!("content-{}", k),
                    format!(
                        "step {} {}: root '{}' real={} model={}",
                        step,
                        at,
                        k,
                        real.get(k).map(|n| n.show()).unwrap_or_default(),
                        v.show()
                    ),
                    cj(),
                );
                return false;
            }
        }
    }
    // lengths in the configured unit
    if let Some(Node::Text(u)) = model.get(&'t') {
        let want = units_len(u, kind);
        let got = roots.t.len(txn);
        if want != got {
            ctx.violation(
                "model-agreement",
                "text-len",
                format!("step {} {}: text len real={} model={} ({})", step, at, got, want, show_units(u)),
                cj(),
            );
            return false;
        }
        let s = roots.t.get_string(txn);
        if s != Node::text_string(u) {
            ctx.violation(
                "model-agreement",
                "text-get_string",
                format!("step {} {}: get_string real={:?} model={:?}", step, at, s, Node::text_string(u)),
                cj(),
            );
            return false;
        }
    }
    if let Some(Node::Array(a)) = model.get(&'a') {
        if roots.a.len(txn) as usize != a.len() {
            ctx.violation(
                "model-agreement",
                "array-len",
                format!("step {} {}: array len real={} model={}", step, at, roots.a.len(txn), a.len()),
                cj(),
            );
            return false;
        }
    }
    if let Some(Node::Map(m)) = model.get(&'m') {
        if roots.m.len(txn) as usize != m.len() {
            ctx.violation(
                "model-agreement",
                "map-len",
                format!("step {} {}: map len real={} model={}", step, at, roots.m.len(txn), m.len()),
                cj(),
            );
            return false;
        }
    }
    if let Some(Node::XmlFragment(c)) = model.get(&'x') {
        if roots.x.len(txn) as usize != c.len() {
            ctx.violation(
                "model-agreement",
                "xml-len",
                format!("step {} {}: xml len real={} model={}", step, at, roots.x.len(txn), c.len()),
                cj(),
            );
            return false;
        }
    }
    let _ = json!(null);
    true
}
