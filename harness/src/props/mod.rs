use crate::engine::PropDef;
pub mod c03;

pub fn all() -> Vec<PropDef> {
    vec![c03::def()]
}
