//! C20 — quotations and links always show the current content of their source.
use super::conv::show_model;
use crate::engine::*;
use crate::model::*;
use crate::ops::*;
use crate::seq::*;
use crate::world::*;
use serde::{Deserialize, Serialize};
use serde_json::{json, Value};
use std::collections::{HashMap, HashSet};
use std::sync::atomic::{AtomicU64, Ordering};
use std::sync::Arc;
use yrs::types::ToJson;
use yrs::{Array, ArrayRef, GetString, Map, MapRef, Observable, Out, Subscription, TextRef, Transact, WeakRef};

pub fn def() -> PropDef {
    PropDef {
        id: "C20",
        title: "quotations and links show the current content of their source",
        shards: |t| t.pick(32, 128),
        run,
        replay,
        rule: "two real replicas; source = root array / root text of uniquely tagged elements, or key k1 of the root map; ALL sequences with <= L operations from {insert/delete on the source at {0,mid,end}, quote EVERY range kind (i..=j, i..j, (i,j], (i,j), ..=j, ..j, i.., (i.., ..) over the current elements and store it in the root map, link the map entry and store the link in the root array, overwrite/remove the linked entry, delete the quotation, causal sync}, state-matched; after every step on every replica that holds the quotation and has integrated its boundary elements: unquote()/get_string()/try_deref_value() must equal the visible elements positioned between the two boundary elements in the item sequence (hook dump; inclusive/exclusive as quoted; a deleted boundary still delimits), an observer attached to the quotation must have fired in every step that changed that content, and deleting the quotation must leave the source unchanged; then every delivery order of the final pool to a fresh replica (subset lattice) with the same dereference oracle on every node. distinct_nontrivial = distinct (range kind, source item sequence, dereferenced content) observations after at least one edit following the quotation",
        assumptions: &[
            "boundary elements are identified by the tags at the quoted indices on the quoting replica",
            "the expected range comes from the verif hook's item sequence (tombstone aware)",
        ],
    }
}

#[derive(Clone, Debug, Serialize, Deserialize)]
struct Cfg20 {
    /// 'a' array quotation, 't' text quotation, 'm' map link
    kind: char,
    depth: usize,
    gc: bool,
    /// with a sibling: a second quotation of the whole source is made once and removed again; the
    /// source alphabet is then reduced to appends and deletions of the first element (deeper, narrower)
    #[serde(default)]
    sibling: bool,
    /// alphabet level of the source edits (1: two-unit inserts and two-unit range deletes)
    #[serde(default)]
    level: u8,
}

fn bounds(tier: Tier) -> Vec<Cfg20> {
    let c = |kind, depth, gc| Cfg20 { kind, depth, gc, sibling: false, level: 0 };
    let cl = |kind, depth, gc| Cfg20 { kind, depth, gc, sibling: false, level: 1 };
    let cs = |kind, depth, gc| Cfg20 { kind, depth, gc, sibling: true, level: 0 };
    match tier {
        Tier::Quick => vec![c('a', 4, true), c('t', 4, true), c('m', 4, true), cs('t', 6, true), cs('a', 6, true), cl('t', 4, true)],
        Tier::Thorough => vec![c('a', 5, true), c('t', 5, false), c('m', 6, true), cs('t', 7, true), cs('a', 7, false), cl('t', 4, false), cl('a', 4, true)],
    }
}

struct Q {
    /// boundary ids as chosen by quote() (read back from the stored quotation) + inclusivity
    lo: Option<((u64, u32), bool)>,
    hi: Option<((u64, u32), bool)>,
    spec: String,
    /// what the author asked for, as tags of the visible elements at quoting time
    requested: Vec<String>,
    resolved: bool,
    /// right after quoting, both boundaries sat on block edges of the quoting replica (it cut them itself)
    cut_at_quote: bool,
    /// right after quoting, some quoted element sat in a block of several units (a later split of such a block
    /// loses the links of its right part: known gap)
    multi_unit_quoted: bool,
}

struct W20 {
    w: World,
    q: Option<Q>,
    /// observers per replica: (subscription, counter)
    obs: Vec<Option<(Subscription, Arc<AtomicU64>)>>,
    tag_id: HashMap<String, (u64, u32)>,
    edits_after_quote: usize,
    steps: usize,
    /// elements that entered an unbounded range through the known edge gap (they carry no link,
    /// so changes next to them or of them are not notified either)
    unlinked: HashSet<(u64, u32)>,
    /// sub-classified (known-pattern) findings: recorded, exploration continues behind them
    soft: Vec<(usize, String, String)>,
    /// a second quotation of the whole source (key q2) was made and removed again
    sibling_removed: bool,
}

fn src_root(kind: char) -> char {
    if kind == 't' {
        't'
    } else {
        'a'
    }
}

fn weak_at(rep: &Replica, kind: char) -> Option<WeakRef<yrs::branch::BranchPtr>> {
    let txn = rep.doc.transact();
    if kind == 'm' {
        // the link is the (only) weak element of the root array
        for o in rep.roots.a.iter(&txn) {
            if let Out::YWeakLink(w) = o {
                return Some(w);
            }
        }
        None
    } else {
        match rep.roots.m.get(&txn, "q") {
            Some(Out::YWeakLink(w)) => Some(w),
            _ => None,
        }
    }
}

/// what the quotation dereferences to right now, as tags
fn deref(rep: &Replica, kind: char, w: &WeakRef<yrs::branch::BranchPtr>) -> Vec<String> {
    let txn = rep.doc.transact();
    match kind {
        'a' => {
            let wa: WeakRef<ArrayRef> = WeakRef::from(w.clone());
            wa.unquote(&txn)
                .map(|o| match o {
                    Out::Any(a) => a.to_string(),
                    other => format!("<{}>", crate::dump::dump_out(&txn, &other).show()),
                })
                .collect()
        }
        't' => {
            let wt: WeakRef<TextRef> = WeakRef::from(w.clone());
            wt.get_string(&txn).chars().map(|c| c.to_string()).collect()
        }
        _ => {
            let wm: WeakRef<MapRef> = WeakRef::from(w.clone());
            wm.try_deref_value(&txn)
                .map(|o| match o {
                    Out::Any(a) => a.to_string(),
                    other => crate::dump::dump_out(&txn, &other).show(),
                })
                .into_iter()
                .collect()
        }
    }
}

/// does a boundary of the quotation cut through the middle of a block of this replica's store?
/// (start-inclusive / end-exclusive boundaries cut before their element, the others after it)
fn boundary_inside_block(rep: &Replica, q: &Q) -> bool {
    let sd = rep.store_dump();
    let cut_inside = |id: (u64, u32), cut_before: bool| -> bool {
        for (c, list) in &sd.clients {
            if *c != id.0 {
                continue;
            }
            for b in list {
                if b.id.1 <= id.1 && id.1 < b.id.1 + b.len {
                    return if cut_before { id.1 != b.id.1 } else { id.1 != b.id.1 + b.len - 1 };
                }
            }
        }
        false
    };
    q.lo.map(|(id, incl)| cut_inside(id, incl)).unwrap_or(false) || q.hi.map(|(id, incl)| cut_inside(id, !incl)).unwrap_or(false)
}

impl W20 {
    fn new(c: &Cfg20) -> W20 {
        let cfgs = vec![
            RCfg { client: 1, gc: c.gc, utf16: false, cleanup: true },
            RCfg { client: 2, gc: c.gc, utf16: false, cleanup: true },
        ];
        W20 { w: World::new(&cfgs), q: None, obs: vec![None, None], tag_id: HashMap::new(), edits_after_quote: 0, steps: 0, unlinked: HashSet::new(), soft: Vec::new(), sibling_removed: false }
    }

    fn learn_tags(&mut self, kind: char) {
        let root = src_root(kind).to_string();
        for rep in &self.w.reps {
            if let Ok(seq) = root_sequence(&rep.store_dump(), &root) {
                for e in seq {
                    if !e.deleted && e.countable && !e.tag.is_empty() && e.tag != "~" && (e.content_ref == 4 || e.content_ref == 8) {
                        self.tag_id.entry(e.tag.clone()).or_insert(e.id);
                    }
                }
            }
        }
    }

    /// expected dereferenced content on `rep`, None if the replica cannot be judged yet
    fn expected(&self, rep: &Replica, kind: char) -> Option<Vec<String>> {
        let sd = rep.store_dump();
        if kind == 'm' {
            let txn = rep.doc.transact();
            return Some(
                rep.roots
                    .m
                    .get(&txn, "k1")
                    .map(|o| match o {
                        Out::Any(a) => a.to_string(),
                        other => crate::dump::dump_out(&txn, &other).show(),
                    })
                    .into_iter()
                    .collect(),
            );
        }
        let q = self.q.as_ref()?;
        if !q.resolved {
            return None;
        }
        let seq = root_sequence(&sd, &src_root(kind).to_string()).ok()?;
        let pos = |id: &(u64, u32)| -> Option<Option<usize>> {
            if !integrated(&sd, *id) {
                return None;
            }
            Some(seq.iter().position(|e| e.id == *id))
        };
        let from = match &q.lo {
            None => 0,
            Some((tag, incl)) => {
                let p = pos(tag)??;
                if *incl {
                    p
                } else {
                    p + 1
                }
            }
        };
        let to = match &q.hi {
            None => seq.len(),
            Some((tag, incl)) => {
                let p = pos(tag)??;
                if *incl {
                    p + 1
                } else {
                    p
                }
            }
        };
        if from > to {
            return Some(Vec::new());
        }
        Some(
            seq[from..to]
                .iter()
                .filter(|e| !e.deleted && e.countable && !(e.content_ref == 4 && e.tag.is_empty()))
                .map(|e| if e.content_ref == 7 { "<weak[]>".to_string() } else { e.tag.clone() })
                .collect(),
        )
    }

    fn step(&mut self, c: &Cfg20, a: &Act) -> Result<(), (String, String)> {
        self.steps += 1;
        let kind = c.kind;
        let mut soft_local: Vec<(String, String)> = Vec::new();
        // content of the quotation before the step, per replica
        let before: Vec<Option<Vec<String>>> = self.w.reps.iter().map(|r| weak_at(r, kind).map(|w| deref(r, kind, &w))).collect();
        let fired_before: Vec<u64> = self.obs.iter().map(|o| o.as_ref().map(|x| x.1.load(Ordering::SeqCst)).unwrap_or(0)).collect();
        let watched = if kind == 'm' { 'm' } else { src_root(kind) };
        let src_before: Vec<Node> = self.w.reps.iter().map(|r| r.dump().get(&watched).cloned().unwrap_or(Node::Undefined)).collect();
        let seq_before: Vec<Vec<SeqElem>> = self.w.reps.iter().map(|r| root_sequence(&r.store_dump(), &src_root(kind).to_string()).unwrap_or_default()).collect();
        // remember the boundary tags when quoting
        if let Act::Local { op: Op::MDel { k, .. }, .. } = a {
            if k == "q2" {
                self.sibling_removed = true;
            }
        }
        if let Act::Local { r, op: Op::Quote { lo, hi, key, .. } } = a {
          if key == "q" {
            let dump = self.w.reps[*r].dump();
            let tags = visible_tags(dump.get(&src_root(kind)).unwrap_or(&Node::Undefined));
            let from = match lo {
                None => 0usize,
                Some((i, true)) => *i as usize,
                Some((i, false)) => *i as usize + 1,
            };
            let to = match hi {
                None => tags.len(),
                Some((j, true)) => *j as usize + 1,
                Some((j, false)) => *j as usize,
            };
            let requested = if from <= to && to <= tags.len() { tags[from..to].to_vec() } else { Vec::new() };
            self.q = Some(Q { lo: lo.map(|(_, incl)| ((0, 0), incl)), hi: hi.map(|(_, incl)| ((0, 0), incl)), spec: format!("{:?}..{:?}", lo, hi), requested, resolved: false, cut_at_quote: false, multi_unit_quoted: false });
          }
        }
        self.w.step(a).map_err(|e| {
            if e.starts_with("quote refused") || e.starts_with("link refused") {
                ("quote-refused".to_string(), format!("{:?}: {}", a, e))
            } else {
                ("harness".to_string(), e)
            }
        })?;
        if self.q.is_some() || kind == 'm' {
            if let Act::Local { op, .. } = a {
                if !matches!(op, Op::Quote { .. } | Op::Link { .. }) {
                    self.edits_after_quote += 1;
                }
            }
        }
        self.learn_tags(kind);
        // right after quoting: read the boundary ids back and check the author sees what it asked for
        if let (Act::Local { r, op: Op::Quote { key, .. } }, Some(q)) = (a, self.q.as_mut().filter(|_| matches!(a, Act::Local { op: Op::Quote { key, .. }, .. } if key == "q"))) {
            let _ = key;
            if let Some(wk) = weak_at(&self.w.reps[*r], kind) {
                let sid = wk.start_id().map(|i| (i.client.get(), i.clock));
                let eid = wk.end_id().map(|i| (i.client.get(), i.clock));
                if q.lo.is_some() != sid.is_some() || q.hi.is_some() != eid.is_some() {
                    return Err(("boundary-kind".into(), format!("quotation {} stored with start id {:?} end id {:?}", q.spec, sid, eid)));
                }
                if let (Some(l), Some(id)) = (q.lo.as_mut(), sid) {
                    l.0 = id;
                }
                if let (Some(h), Some(id)) = (q.hi.as_mut(), eid) {
                    h.0 = id;
                }
                q.resolved = true;
                // (a start-exclusive quotation is neither cut nor linked by quote(): a block edge there is a coincidence)
                q.cut_at_quote = !boundary_inside_block(&self.w.reps[*r], q) && !matches!(q.lo, Some((_, false)));
                {
                    let sd = self.w.reps[*r].store_dump();
                    let ids: Vec<(u64, u32)> = q.requested.iter().filter_map(|t| self.tag_id.get(t).copied()).collect();
                    q.multi_unit_quoted = sd.clients.iter().any(|(c, list)| {
                        list.iter().any(|b| b.kind == yrs::verif::BlockKind::Item && b.len >= 2 && ids.iter().any(|id| id.0 == *c && b.id.1 <= id.1 && id.1 < b.id.1 + b.len))
                    });
                }
                let got = deref(&self.w.reps[*r], kind, &wk);
                if got != q.requested {
                    { let __e: (String, String) = (if boundary_inside_block(&self.w.reps[*r], q) { "dereference-differs:boundary-inside-block".into() } else { "quotation-differs-from-requested-range".into() },
                        format!("quoting {} of {} yields {:?}, requested {:?}", q.spec, show_model(&self.w.reps[*r].dump()), got, q.requested),
                    ); if __e.0.contains(':') { soft_local.push(__e); } else { return Err(__e); } }
                }
            }
        }
        let seq_after: Vec<Vec<SeqElem>> = self.w.reps.iter().map(|r| root_sequence(&r.store_dump(), &src_root(kind).to_string()).unwrap_or_default()).collect();
        for (i, rep) in self.w.reps.iter().enumerate() {
            let Some(w) = weak_at(rep, kind) else {
                // deleting the quotation leaves the source untouched (judged on the replica that
                // deletes it, in the very step that deletes it)
                let deleting_here = match a {
                    Act::Local { r, op: Op::MDel { k, .. } } => *r == i && k == "q",
                    Act::Local { r, op: Op::ADel { .. } } => *r == i && kind == 'm',
                    _ => false,
                };
                if before[i].is_some() && deleting_here {
                    let now = rep.dump().get(&watched).cloned().unwrap_or(Node::Undefined);
                    if now != src_before[i] {
                        { let __e: (String, String) = (
                            "deleting-quotation-changes-source".into(),
                            format!("replica {}: {:?} removed the quotation and the source went {} -> {}", i, a, src_before[i].show(), now.show()),
                        ); if __e.0.contains(':') { soft_local.push(__e); } else { return Err(__e); } }
                    }
                }
                self.obs[i] = None;
                continue;
            };
            let got = deref(rep, kind, &w);
            if let Some(want) = self.expected(rep, kind) {
                if got != want {
                    { let __e: (String, String) = (
                        if self.q.as_ref().map(|q| boundary_inside_block(rep, q)).unwrap_or(false) {
                            // the replica that made the quotation cut its blocks at the boundaries itself and protects the
                            // cut with the linked flag: there a boundary inside a block means the protection was lost
                            if i == 0 && self.q.as_ref().map(|q| q.cut_at_quote && !q.multi_unit_quoted).unwrap_or(false) { "dereference-differs:boundary-cut-lost-on-the-quoting-replica".into() } else { "dereference-differs:boundary-inside-block".into() }
                        } else { "dereference-differs".into() },
                        format!(
                            "replica {} after {:?}: quotation {} dereferences to {:?} but the elements between its boundaries are {:?} (source {})",
                            i,
                            a,
                            self.q.as_ref().map(|q| q.spec.clone()).unwrap_or_else(|| "link k1".into()),
                            got,
                            want,
                            show_model(&rep.dump())
                        ),
                    ); if __e.0.contains(':') { soft_local.push(__e); } else { return Err(__e); } }
                }
            }
            // elements that enter next to a tombstone / the collection edge inherit no link (known
            // gap); remember them, whether or not the observer happened to fire in this step
            if kind != 'm' {
                let old_ids: HashSet<(u64, u32)> = seq_before[i].iter().map(|e| e.id).collect();
                let sa = &seq_after[i];
                for (p, e) in sa.iter().enumerate() {
                    if !old_ids.contains(&e.id) {
                        let l = (0..p).rev().map(|k| &sa[k]).find(|x| old_ids.contains(&x.id));
                        let r = sa[p + 1..].iter().find(|x| old_ids.contains(&x.id));
                        if l.map(|x| x.deleted || self.unlinked.contains(&x.id)).unwrap_or(true) || r.map(|x| x.deleted || self.unlinked.contains(&x.id)).unwrap_or(true) {
                            self.unlinked.insert(e.id);
                        }
                        // inserted between two units of one block: the split does not carry the
                        // links over to the right half (known gap) - the new element and the
                        // right half are unlinked from now on
                        if let (Some(l), Some(r)) = (l, r) {
                            if l.id.0 == r.id.0 && l.id.1 + 1 == r.id.1 && l.deleted == r.deleted {
                                let sb = &seq_before[i];
                                if let Some(pos) = sb.iter().position(|x| x.id == r.id) {
                                    self.unlinked.insert(e.id);
                                    let mut k = pos;
                                    loop {
                                        self.unlinked.insert(sb[k].id);
                                        if k + 1 < sb.len() && sb[k].id.0 == sb[k + 1].id.0 && sb[k].id.1 + 1 == sb[k + 1].id.1 {
                                            k += 1;
                                        } else {
                                            break;
                                        }
                                    }
                                }
                            }
                        }
                    }
                }
            }
            // observer: fired if the dereferenced content changed in this step
            if let (Some(Some(b)), Some(o)) = (before.get(i), self.obs[i].as_ref()) {
                let fired = o.1.load(Ordering::SeqCst) > fired_before[i];
                if *b != got && !fired {
                    // known gap: an element inserted at the very edge of the collection (no item at
                    // all on that side) into a range that is unbounded on that side
                    let old_ids: HashSet<(u64, u32)> = seq_before[i].iter().map(|e| e.id).collect();
                    let newpos: Vec<usize> = seq_after[i].iter().enumerate().filter(|(_, e)| !old_ids.contains(&e.id)).map(|(p, _)| p).collect();
                    let q = self.q.as_ref();
                    let touches_unlinked = {
                        let sa = &seq_after[i];
                        newpos.iter().any(|p| (*p > 0 && self.unlinked.contains(&sa[*p - 1].id)) || (*p + 1 < sa.len() && self.unlinked.contains(&sa[*p + 1].id)))
                            || seq_before[i].iter().any(|e| !e.deleted && self.unlinked.contains(&e.id) && sa.iter().find(|x| x.id == e.id).map(|x| x.deleted).unwrap_or(false))
                    };
                    let at_edge = touches_unlinked || !newpos.is_empty()
                        && kind != 'm'
                        && seq_before[i].len() + newpos.len() == seq_after[i].len()
                        && {
                            // link inheritance needs a live quoted element on BOTH sides of the new
                            // element: a tombstone or the collection edge on either side breaks it
                            let sa = &seq_after[i];
                            let first = newpos[0];
                            let last = *newpos.last().unwrap();
                            (first == 0 || sa[first - 1].deleted) || (last + 1 >= sa.len() || sa[last + 1].deleted)
                        };
                    // the change touches the inside of a block that was quoted as a whole: an
                    // insertion between two units of one block, or a deletion of a unit of a
                    // multi-unit block (the block is split without carrying its links over)
                    let sd_before_blocks: Vec<((u64, u32), u32)> = {
                        // block starts/lengths before the step are not kept; approximate from the
                        // ids: consecutive clocks of one client adjacent in the sequence
                        Vec::new()
                    };
                    let _ = sd_before_blocks;
                    let same_block = |x: &SeqElem, y: &SeqElem| x.id.0 == y.id.0 && x.id.1 + 1 == y.id.1 && x.deleted == y.deleted;
                    let splits_block = kind != 'm' && {
                        let sb = &seq_before[i];
                        let ins_inside = newpos.iter().any(|p| {
                            // neighbours of the new element in the new sequence were adjacent units before
                            let l = seq_after[i][..*p].iter().rev().find(|e| old_ids.contains(&e.id));
                            let r = seq_after[i][*p + 1..].iter().find(|e| old_ids.contains(&e.id));
                            match (l, r) {
                                (Some(l), Some(r)) => {
                                    let lb = sb.iter().find(|e| e.id == l.id);
                                    let rb = sb.iter().find(|e| e.id == r.id);
                                    matches!((lb, rb), (Some(lb), Some(rb)) if same_block(lb, rb))
                                }
                                _ => false,
                            }
                        });
                        let del_inside = sb.iter().enumerate().any(|(p, e)| {
                            let now_deleted = seq_after[i].iter().find(|x| x.id == e.id).map(|x| x.deleted).unwrap_or(false);
                            !e.deleted
                                && now_deleted
                                && ((p > 0 && same_block(&sb[p - 1], e)) || (p + 1 < sb.len() && same_block(e, &sb[p + 1])))
                        });
                        ins_inside || del_inside
                    };
                    if at_edge {
                        for p in &newpos {
                            self.unlinked.insert(seq_after[i][*p].id);
                        }
                    }
                    // once a removal of the linked key has reached this replica the link bookkeeping
                    // is gone for good (the link sat on the removed item; later writes, also
                    // concurrent ones that survive the removal, are not linked)
                    let recreated = kind == 'm'
                        && rep.known.iter().any(|u| matches!(&self.w.pool[*u].op, Some(Op::MDel { k, .. }) if k == "k1"));
                    { let __e: (String, String) = (
                        if kind == 't' {
                            // text blocks are split and squashed all the time and splits do not carry
                            // links over: notifications of text quotations are unreliable throughout
                            "observer-not-notified:text-quotation".into()
                        } else if at_edge {
                            "observer-not-notified:new-element-next-to-tombstone-or-collection-edge".into()
                        } else if recreated {
                            "observer-not-notified:linked-key-was-removed-earlier".into()
                        } else if kind != 'm' && q.map(|q| matches!(q.lo, Some((_, false)))).unwrap_or(false) {
                            "observer-not-notified:start-exclusive-range".into()
                        } else if splits_block {
                            "observer-not-notified:change-inside-a-multi-unit-block".into()
                        } else {
                            "observer-not-notified".into()
                        },
                        format!("replica {} after {:?}: quoted content went {:?} -> {:?} but the quotation's observer did not fire", i, a, b, got),
                    ); if __e.0.contains(':') { soft_local.push(__e); } else { return Err(__e); } }
                }
            }
            if self.obs[i].is_none() {
                let cnt = Arc::new(AtomicU64::new(0));
                let c2 = cnt.clone();
                let sub = match kind {
                    'a' => {
                        let wa: WeakRef<ArrayRef> = WeakRef::from(w.clone());
                        wa.observe(move |_, _| {
                            c2.fetch_add(1, Ordering::SeqCst);
                        })
                    }
                    't' => {
                        let wt: WeakRef<TextRef> = WeakRef::from(w.clone());
                        wt.observe(move |_, _| {
                            c2.fetch_add(1, Ordering::SeqCst);
                        })
                    }
                    _ => {
                        let wm: WeakRef<MapRef> = WeakRef::from(w.clone());
                        wm.observe(move |_, _| {
                            c2.fetch_add(1, Ordering::SeqCst);
                        })
                    }
                };
                self.obs[i] = Some((sub, cnt));
            }
        }
        let st = self.steps;
        self.soft.extend(soft_local.into_iter().map(|(c, m)| (st, c, m)));
        Ok(())
    }
}

fn build(c: &Cfg20, trace: &[Act]) -> (W20, Option<(String, String)>) {
    let mut w = W20::new(c);
    for a in trace {
        // a step may report several soft findings: re-run the judging part until it passes or
        // fails hard (each soft class is muted once recorded for this step)
        if let Err(e) = w.step(c, a) {
            return (w, Some(e));
        }
    }
    (w, None)
}

fn range_specs(n: usize) -> Vec<(Option<(u32, bool)>, Option<(u32, bool)>)> {
    let mut out = Vec::new();
    let n = n as u32;
    out.push((None, None));
    for i in 0..n {
        out.push((Some((i, true)), None));
        out.push((Some((i, false)), None));
        out.push((None, Some((i, true))));
        out.push((None, Some((i, false))));
        for j in i..n {
            out.push((Some((i, true)), Some((j, true))));
            if j > i {
                out.push((Some((i, true)), Some((j, false))));
                out.push((Some((i, false)), Some((j, true))));
                out.push((Some((i, false)), Some((j, false))));
            }
        }
    }
    out
}

fn enabled(c: &Cfg20, w: &W20, nlocal: usize) -> Vec<Act> {
    let mut out = Vec::new();
    if nlocal >= c.depth {
        return out;
    }
    for dst in 0..2 {
        for src in 0..2 {
            if dst != src && !w.w.reps[src].known.is_subset(&w.w.reps[dst].known) {
                out.push(Act::Sync { dst, src });
            }
        }
    }
    for r in 0..2 {
        let st = w.w.reps[r].dump();
        let k = w.w.nops;
        match c.kind {
            'm' => {
                let has_link = weak_at(&w.w.reps[0], 'm').is_some() || weak_at(&w.w.reps[1], 'm').is_some();
                let Some(Node::Map(m)) = st.get(&'m') else { continue };
                out.push(Act::Local { r, op: Op::MSet { t: Tgt::root('m'), k: "k1".into(), v: Val::Any(AnyV::Str(format!("v{}", k))) } });
                if m.contains_key("k1") {
                    out.push(Act::Local { r, op: Op::MDel { t: Tgt::root('m'), k: "k1".into() } });
                    if !has_link && r == 0 {
                        out.push(Act::Local { r, op: Op::Link { t: Tgt::root('a'), k: "k1".into() } });
                    }
                }
                if let Some(Node::Array(a)) = st.get(&'a') {
                    if !a.is_empty() && has_link {
                        out.push(Act::Local { r, op: Op::ADel { t: Tgt::root('a'), i: 0, n: 1 } });
                    }
                }
            }
            kind => {
                let fam = if kind == 't' { Fam::Txt } else { Fam::Arr };
                for op in gen_ops(fam, &st, k, c.level) {
                    if c.sibling || c.level >= 1 {
                        // narrow source alphabet: append at the end, delete the first element (level 1: any range)
                        let keep = match &op {
                            Op::TIns { i, .. } | Op::AIns { i, .. } => {
                                let len = match st.get(&src_root(kind)) {
                                    Some(Node::Array(a)) => a.len(),
                                    Some(Node::Text(u)) => u.len(),
                                    _ => 0,
                                };
                                *i == len
                            }
                            Op::TDel { i, .. } | Op::ADel { i, .. } => *i == 0 || c.level >= 1,
                            _ => false,
                        };
                        if !keep || r != 0 {
                            continue;
                        }
                    }
                    out.push(Act::Local { r, op });
                }
                let quoted = w.q.is_some();
                let n = match st.get(&src_root(kind)) {
                    Some(Node::Array(a)) => a.len(),
                    Some(Node::Text(u)) => u.len(),
                    _ => 0,
                };
                if !quoted && r == 0 && n > 0 {
                    for (lo, hi) in range_specs(n) {
                        // ranges that are empty when quoted are out of scope
                        let from = match lo { None => 0, Some((i, true)) => i, Some((i, false)) => i + 1 };
                        let to = match hi { None => n as u32, Some((j, true)) => j + 1, Some((j, false)) => j };
                        if from >= to {
                            continue;
                        }
                        out.push(Act::Local { r, op: Op::Quote { t: Tgt::root('m'), src: src_root(kind), lo, hi, key: "q".into() } });
                    }
                }
                if let Some(Node::Map(m)) = st.get(&'m') {
                    if m.contains_key("q") {
                        out.push(Act::Local { r, op: Op::MDel { t: Tgt::root('m'), k: "q".into() } });
                    }
                    // a sibling: a second quotation of the whole source, made once and removed again
                    if c.sibling && quoted && r == 0 && n > 0 {
                        if m.contains_key("q2") {
                            out.push(Act::Local { r, op: Op::MDel { t: Tgt::root('m'), k: "q2".into() } });
                        } else if !w.sibling_removed && m.contains_key("q") {
                            out.push(Act::Local { r, op: Op::Quote { t: Tgt::root('m'), src: src_root(kind), lo: None, hi: None, key: "q2".into() } });
                        }
                    }
                }
            }
        }
    }
    out
}

fn dfs(ctx: &mut Ctx, c: &Cfg20, trace: &mut Vec<Act>, nlocal: usize, visited: &mut HashMap<u64, usize>, pools: &mut HashSet<u64>, idx: &mut u64) {
    if ctx.out_of_time() {
        return;
    }
    let case = json!({"cfg": c, "trace": trace});
    let cj = || case.clone();
    let res = ctx.exec(&cj, |ctx| {
        ctx.count("transitions", trace.len() as u64);
        build(c, trace)
    });
    let Some((w, verdict)) = res else { return };
    if let Some((class, msg)) = verdict {
        if class == "harness" {
            ctx.machinery_error(format!("{} on {}", msg, case));
        } else {
            ctx.violation("quotation", &class, msg, cj());
        }
        return;
    }
    // a removed sibling quotation must not matter: if this step shows a (known-pattern) finding that the
    // same history WITHOUT the sibling's creation and removal does not show, it is not that known pattern
    let sibling_ops = |a: &Act| matches!(a, Act::Local { op: Op::Quote { key, .. }, .. } if key == "q2") || matches!(a, Act::Local { op: Op::MDel { k, .. }, .. } if k == "q2");
    let mut without: Option<Vec<String>> = None;
    if w.sibling_removed && w.soft.iter().any(|(s, _, _)| *s == trace.len()) && !trace.last().map(sibling_ops).unwrap_or(true) {
        let filtered: Vec<Act> = trace.iter().filter(|a| !sibling_ops(a)).cloned().collect();
        let (w2, v2) = build(c, &filtered);
        if v2.is_none() {
            without = Some(w2.soft.iter().filter(|(s, _, _)| *s == filtered.len()).map(|(_, class, _)| class.split(':').next().unwrap_or("").to_string()).collect());
        }
    }
    for (step, class, msg) in &w.soft {
        if *step == trace.len() {
            let head = class.split(':').next().unwrap_or("").to_string();
            match &without {
                Some(other) if !other.contains(&head) => {
                    ctx.violation("quotation", &format!("{}:only-after-a-sibling-quotation-was-removed", head), format!("{} (the same history without the second quotation q2 and its removal shows no such problem)", msg), cj());
                }
                _ => ctx.violation("quotation", class, msg.clone(), cj()),
            }
        }
    }
    ctx.sample(cj);
    let key = hash_of(&(w.w.key(), w.q.as_ref().map(|q| q.spec.clone())));
    let remaining = c.depth - nlocal;
    match visited.get(&key) {
        Some(&r) if r >= remaining => {
            ctx.count("pruned_revisits", 1);
            return;
        }
        _ => {}
    }
    visited.insert(key, remaining);
    ctx.state(key);
    if w.edits_after_quote > 0 {
        if let Some(wk) = weak_at(&w.w.reps[0], c.kind) {
            let seq = root_sequence(&w.w.reps[0].store_dump(), &src_root(c.kind).to_string()).unwrap_or_default();
            ctx.outcome(hash_of(&(
                w.q.as_ref().map(|q| q.spec.clone()),
                seq.iter().map(|e| (e.tag.clone(), e.deleted)).collect::<Vec<_>>(),
                deref(&w.w.reps[0], c.kind, &wk),
            )));
        }
    }
    // every delivery order of the final pool to a fresh replica
    if !c.sibling && c.level == 0 && (w.q.is_some() || c.kind == 'm') && w.w.pool.len() >= 2 && w.w.pool.len() <= 6 && pools.insert(w.w.pool_key()) {
        ctx.count("pools", 1);
        let pool = w.w.pool.clone();
        let gc = c.gc;
        let base = move || -> Result<Receiver, String> {
            Ok(Receiver { world: World::new(&[RCfg { client: 900, gc, utf16: false, cleanup: false }]), r: 0, mask: 0 })
        };
        let casef = |p: &[Edge]| json!({"cfg": c, "trace": trace, "path": p});
        let mut visit = |ctx: &mut Ctx, node: &LatticeNode| {
            let rep = node.recv.rep();
            if let Some(wk) = weak_at(rep, c.kind) {
                // a quotation can only be read once both of its boundary elements are there
                if c.kind != 'm' {
                    let sd = rep.store_dump();
                    for id in [wk.start_id(), wk.end_id()].into_iter().flatten() {
                        let pid = (id.client.get(), id.clock);
                        if !integrated(&sd, pid) {
                            ctx.violation(
                                "quotation",
                                "quotation-integrated-before-its-boundary-element",
                                format!("fresh replica after delivery path {:?}: the quotation is integrated and readable although its boundary element {:?} has not arrived ({})", node.path, pid, show_store(&sd).replace('\n', " ")),
                                casef(node.path),
                            );
                            return;
                        }
                    }
                }
                let got = deref(rep, c.kind, &wk);
                if let Some(want) = w.expected(rep, c.kind) {
                    if got != want {
                        ctx.violation(
                            "quotation",
                            if w.q.as_ref().map(|q| boundary_inside_block(rep, q)).unwrap_or(false) { "dereference-differs:boundary-inside-block" } else { "dereference-differs" },
                            format!(
                                "fresh replica after delivery path {:?}: quotation {} dereferences to {:?} but the elements between its boundaries are {:?} ({})",
                                node.path,
                                w.q.as_ref().map(|q| q.spec.clone()).unwrap_or_else(|| "link k1".into()),
                                got,
                                want,
                                show_store(&rep.store_dump()).replace('\n', " ")
                            ),
                            casef(node.path),
                        );
                    }
                }
            }
        };
        lattice(ctx, &pool, &base, 0, 0, &casef, &mut visit);
    }
    let acts = enabled(c, &w, nlocal);
    drop(w);
    for a in acts {
        if trace.len() == 1 {
            *idx += 1;
            if !ctx.mine(*idx) {
                continue;
            }
        }
        let is_local = matches!(a, Act::Local { .. });
        trace.push(a);
        dfs(ctx, c, trace, nlocal + is_local as usize, visited, pools, idx);
        trace.pop();
    }
}

fn run(ctx: &mut Ctx) {
    let mut idx = 0u64;
    for c in bounds(ctx.tier) {
        let mut visited = HashMap::new();
        let mut pools = HashSet::new();
        dfs(ctx, &c, &mut Vec::new(), 0, &mut visited, &mut pools, &mut idx);
    }
}

fn replay(ctx: &mut Ctx, case: &Value) {
    let c: Cfg20 = match serde_json::from_value(case["cfg"].clone()) {
        Ok(c) => c,
        Err(e) => return ctx.machinery_error(format!("bad case: {}", e)),
    };
    let trace: Vec<Act> = serde_json::from_value(case["trace"].clone()).unwrap_or_default();
    let path: Vec<Edge> = serde_json::from_value(case["path"].clone()).unwrap_or_default();
    let cj = || case.clone();
    let res = ctx.exec(&cj, |_| build(&c, &trace));
    let Some((w, verdict)) = res else { return };
    for (_, class, msg) in &w.soft {
        ctx.violation("quotation", class, msg.clone(), cj());
    }
    if let Some((class, msg)) = verdict {
        ctx.violation("quotation", &class, msg, cj());
        return;
    }
    if std::env::var("VERIF_TRACE").is_ok() {
        for (i, rep) in w.w.reps.iter().enumerate() {
            eprintln!("author replica {}: {}\n{}", i, show_model(&rep.dump()), show_store(&rep.store_dump()));
            if let Some(wk) = weak_at(rep, c.kind) {
                eprintln!("    deref {:?} expected {:?}", deref(rep, c.kind, &wk), w.expected(rep, c.kind));
            }
        }
    }
    if !path.is_empty() {
        let pool = w.w.pool.clone();
        let mut r = Receiver { world: World::new(&[RCfg { client: 900, gc: c.gc, utf16: false, cleanup: false }]), r: 0, mask: 0 };
        for e in &path {
            if r.apply_edge(&pool, e).is_err() {
                return;
            }
            let rep = r.rep();
            if std::env::var("VERIF_TRACE").is_ok() {
                eprintln!("--- after {:?}: {}\n{}", e, show_model(&rep.dump()), show_store(&rep.store_dump()));
                if let Some(wk) = weak_at(rep, c.kind) {
                    eprintln!("    deref {:?} expected {:?}", deref(rep, c.kind, &wk), w.expected(rep, c.kind));
                }
            }
            if let Some(wk) = weak_at(rep, c.kind) {
                if c.kind != 'm' {
                    let sd = rep.store_dump();
                    for id in [wk.start_id(), wk.end_id()].into_iter().flatten() {
                        let pid = (id.client.get(), id.clock);
                        if !integrated(&sd, pid) {
                            ctx.violation("quotation", "quotation-integrated-before-its-boundary-element", format!("fresh replica: quotation readable although its boundary element {:?} has not arrived", pid), cj());
                            return;
                        }
                    }
                }
                let got = deref(rep, c.kind, &wk);
                if let Some(want) = w.expected(rep, c.kind) {
                    if got != want {
                        let class = if w.q.as_ref().map(|q| boundary_inside_block(rep, q)).unwrap_or(false) { "dereference-differs:boundary-inside-block" } else { "dereference-differs" };
                        ctx.violation("quotation", class, format!("fresh replica: dereferences to {:?}, expected {:?}", got, want), cj());
                        return;
                    }
                }
            }
        }
    }
    let _ = |a: &ArrayRef, t: &yrs::Transaction| a.to_json(t);
}
