//! C06 — state-vector sync is complete, monotone and idempotent.
use super::conv::{rc, show_model};
use crate::engine::*;
use crate::model::*;
use crate::ops::*;
use crate::world::*;
use serde_json::{json, Value};
use std::collections::{BTreeMap, BTreeSet};
use yrs::updates::decoder::Decode;
use yrs::updates::encoder::Encode;
use yrs::{ReadTxn, StateVector, Transact, Update};

pub fn def() -> PropDef {
    PropDef {
        id: "C06",
        title: "state-vector sync complete, monotone, idempotent",
        shards: |t| t.pick(48, 192),
        run,
        replay,
        rule: "world states reached by histories of L local ops on 2 real replicas with causal syncs AND up to P out-of-order single-update deliveries (so replicas with stashed updates, Skip gaps, gc'd ranges exist), state-matched; for every ordered pair (A,B) of replicas of every state, every state vector B could legitimately send (current, empty, every earlier one along its history), x {encode_diff, encode_state_as_update} x {v1,v2}: the world is rebuilt from its trace, B applies A's answer, and the oracle checks dominance sv_B' >= sv_A, monotonicity sv_B' >= sv_B, A's deletions subset of B's, re-application is a no-op, self-diff is a no-op, and ping-pong A<->B until neither changes (<= 16 rounds) ends with equal content, state vectors and delete sets. distinct_nontrivial = distinct (A internal state, B internal state) pairs where A != B",
        assumptions: &[
            "a stale state vector is one the same replica had earlier in the history",
            "16 ping-pong rounds stand for non-termination",
        ],
    }
}

fn bounds(tier: Tier) -> Vec<(Fam, u8, Vec<RCfg>, usize, usize)> {
    let cu = |client, gc, cleanup| RCfg { client, gc, utf16: false, cleanup };
    match tier {
        Tier::Quick => vec![
            (Fam::Txt, 0, vec![rc(1, true), rc(2, true)], 3, 1),
            (Fam::Txt, 1, vec![rc(1, true), rc(2, false)], 2, 1),
            (Fam::Map, 1, vec![rc(1, true), rc(2, true)], 3, 1),
            (Fam::Rtx, 0, vec![cu(1, true, true), cu(2, true, false)], 3, 0),
            (Fam::Nest, 0, vec![rc(1, true), rc(2, true)], 3, 1),
            // three clients: a block of a higher client anchored inside a gap the receiver holds for a lower one
            (Fam::Map, 1, vec![rc(2, true), rc(1, true), rc(3, true)], 3, 1),
        ],
        Tier::Thorough => vec![
            (Fam::Txt, 0, vec![rc(1, true), rc(2, true)], 4, 2),
            (Fam::Txt, 1, vec![rc(1, true), rc(2, false)], 3, 1),
            (Fam::Map, 1, vec![rc(1, true), rc(2, false)], 4, 1),
            (Fam::Rtx, 0, vec![cu(1, true, true), cu(2, true, false)], 4, 0),
            (Fam::Rtx, 0, vec![cu(1, true, true), cu(2, true, true)], 3, 1),
            (Fam::Nest, 0, vec![rc(1, true), rc(2, false)], 3, 1),
            (Fam::Arr, 1, vec![rc(1, true), rc(2, true)], 3, 1),
            (Fam::Xml, 0, vec![rc(1, true), rc(2, true)], 3, 1),
            // three clients: a block of a higher client anchored inside a gap the receiver holds for a lower one
            (Fam::Map, 1, vec![rc(2, true), rc(1, true), rc(3, true)], 3, 1),
        ],
    }
}

fn run(ctx: &mut Ctx) {
    let mut idx = 0u64;
    for (fam, level, cfgs, depth, partial) in bounds(ctx.tier) {
        let h = HistCfg { fam, level, cfgs: cfgs.clone(), depth, syncs: true, partial };
        let shard = ctx.shard;
        let nsh = ctx.nshards as u64;
        let mut first = |_i: u64| {
            idx += 1;
            (idx % nsh) as usize == shard
        };
        let mut visit = |ctx: &mut Ctx, w: &World, trace: &[Act]| {
            ctx.count(&format!("world_states_{}", fam.name()), 1);
            if w.reps.iter().any(|r| r.pending()) {
                ctx.count("world_states_with_pending", 1);
            }
            check_state(ctx, &cfgs, trace);
        };
        explore_histories(ctx, &h, &mut first, &mut visit);
    }
}

fn replay(ctx: &mut Ctx, case: &Value) {
    let cfgs: Vec<RCfg> = match serde_json::from_value(case["cfgs"].clone()) {
        Ok(c) => c,
        Err(e) => return ctx.machinery_error(format!("bad case: {}", e)),
    };
    let trace: Vec<Act> = match serde_json::from_value(case["trace"].clone()) {
        Ok(c) => c,
        Err(e) => return ctx.machinery_error(format!("bad case: {}", e)),
    };
    check_state(ctx, &cfgs, &trace);
}

fn ds_points(rep: &Replica) -> BTreeSet<(u64, u32)> {
    let txn = rep.doc.transact();
    let ds = txn.snapshot().delete_set;
    let mut s = BTreeSet::new();
    for (c, ranges) in ds.iter() {
        for r in ranges.iter() {
            for k in r.start..r.end {
                s.insert((c.get(), k));
            }
        }
    }
    s
}

fn dominates(a: &BTreeMap<u64, u32>, b: &BTreeMap<u64, u32>) -> bool {
    b.iter().all(|(c, k)| a.get(c).copied().unwrap_or(0) >= *k)
}

fn encode(rep: &Replica, sv: &StateVector, full: bool, v2: bool) -> Vec<u8> {
    let txn = rep.doc.transact();
    match (full, v2) {
        (false, false) => txn.encode_diff_v1(sv),
        (false, true) => txn.encode_diff_v2(sv),
        (true, false) => txn.encode_state_as_update_v1(sv),
        (true, true) => txn.encode_state_as_update_v2(sv),
    }
}

fn check_state(ctx: &mut Ctx, cfgs: &[RCfg], trace: &[Act]) {
    // earlier state vectors of every replica
    let mut old_svs: Vec<Vec<Vec<u8>>> = vec![Vec::new(); cfgs.len()];
    for k in 0..trace.len() {
        if let Ok(w) = World::build(cfgs, &trace[..k]) {
            for (i, r) in w.reps.iter().enumerate() {
                let sv = r.doc.transact().state_vector().encode_v1();
                if !old_svs[i].contains(&sv) {
                    old_svs[i].push(sv);
                }
            }
        }
    }
    let n = cfgs.len();
    for a in 0..n {
        for b in 0..n {
            if a == b {
                continue;
            }
            // sv variants of B: current (None) + stale ones
            let mut variants: Vec<Option<Vec<u8>>> = vec![None];
            for s in &old_svs[b] {
                variants.push(Some(s.clone()));
            }
            for (vi, sv_variant) in variants.iter().enumerate() {
                for full in [false, true] {
                    for v2 in [false, true] {
                        let case = json!({"cfgs": cfgs, "trace": trace, "a": a, "b": b, "sv_variant": vi, "full_state": full, "v2": v2});
                        let cj = || case.clone();
                        ctx.exec(&cj, |ctx| {
                            ctx.count("transitions", trace.len() as u64 + 2);
                            one_exchange(ctx, cfgs, trace, a, b, sv_variant.as_deref(), full, v2, &cj)
                        });
                        ctx.sample(cj);
                    }
                }
            }
        }
    }
}

fn one_exchange(
    ctx: &mut Ctx,
    cfgs: &[RCfg],
    trace: &[Act],
    a: usize,
    b: usize,
    stale_sv: Option<&[u8]>,
    full: bool,
    v2: bool,
    cj: &dyn Fn() -> Value,
) {
    let Ok(w) = World::build(cfgs, trace) else { return };
    let ra = &w.reps[a];
    let rb = &w.reps[b];
    let sv_a = ra.sv();
    let sv_b0 = rb.sv();
    let ds_a = ds_points(ra);
    if ra.store_hash() != rb.store_hash() {
        ctx.outcome(hash_of(&(ra.store_hash(), rb.store_hash())));
    }
    let sv_sent = match stale_sv {
        Some(bytes) => match StateVector::decode_v1(bytes) {
            Ok(s) => s,
            Err(_) => return,
        },
        None => rb.doc.transact().state_vector(),
    };
    let payload = encode(ra, &sv_sent, full, v2);
    if let Err(e) = rb.apply(&payload, v2) {
        ctx.violation("sync", "answer-not-appliable", format!("B cannot apply A's answer: {}", e), cj());
        return;
    }
    let sv_b1 = rb.sv();
    if !dominates(&sv_b1, &sv_b0) {
        ctx.violation("sync", "state-vector-decreased", format!("B's sv went from {:?} to {:?}", sv_b0, sv_b1), cj());
        return;
    }
    // completeness: everything A had integrated (A's sv is skip-aware) is now in B
    if !dominates(&sv_b1, &sv_a) {
        ctx.violation(
            "sync",
            "receiver-does-not-dominate-sender",
            format!("after applying A's answer B's sv {:?} does not dominate A's {:?} (B before: {:?}; A: {} B: {})", sv_b1, sv_a, sv_b0, show_store(&ra.store_dump()).replace('\n', " "), show_store(&rb.store_dump()).replace('\n', " ")),
            cj(),
        );
        return;
    }
    let ds_b1 = ds_points(rb);
    if !ds_a.is_subset(&ds_b1) {
        ctx.violation(
            "sync",
            "sender-deletions-missing",
            format!("A's deleted ids {:?} are not all deleted in B {:?}", ds_a.difference(&ds_b1).collect::<Vec<_>>(), ds_b1),
            cj(),
        );
        return;
    }
    // completeness of content: B now knows what A and B knew; if that set of operations is causally
    // closed and nothing is stashed, B must show exactly what a replica shows that received those
    // operations one by one in emission order
    let union: BTreeSet<usize> = ra.known.union(&rb.known).copied().collect();
    // (a sender that only has some of its knowledge stashed does not pass that part on with encode_diff)
    let reference: Option<Model> = if !ra.pending() && closed(&w.pool, mask_of(&union)) {
        let fresh = Replica::new(RCfg { client: 900, gc: rb.cfg.gc, utf16: rb.cfg.utf16, cleanup: false });
        let mut ok = true;
        for i in &union {
            ok &= fresh.apply(&w.pool[*i].v1, false).is_ok();
        }
        if ok && !fresh.pending() {
            Some(fresh.dump())
        } else {
            None
        }
    } else {
        None
    };
    if let Some(want) = &reference {
        if !rb.pending() && stale_sv.is_none() && &rb.dump() != want {
            ctx.violation(
                "sync",
                "content-incomplete-after-sync",
                format!("B applied A's answer and reports nothing missing, but shows {} where the operations known to A and B give {}", show_model(&rb.dump()), show_model(want)),
                cj(),
            );
            return;
        }
    }
    // idempotence: the same payload again changes nothing
    let (d1, h1) = (rb.dump(), rb.store_hash());
    if let Err(e) = rb.apply(&payload, v2) {
        ctx.violation("sync", "answer-not-appliable", format!("re-applying failed: {}", e), cj());
        return;
    }
    if rb.sv() != sv_b1 || rb.dump() != d1 {
        ctx.violation(
            "sync",
            "reapply-changes-state",
            format!("re-applying the same update changed B: sv {:?}->{:?}, content {} -> {}", sv_b1, rb.sv(), show_model(&d1), show_model(&rb.dump())),
            cj(),
        );
        return;
    }
    let _ = h1;
    // self diff: an update encoded against one's own state vector changes nothing
    for x in [ra, rb] {
        let own = x.doc.transact().state_vector();
        let p = encode(x, &own, full, v2);
        let (sv0, d0, ds0) = (x.sv(), x.dump(), ds_points(x));
        if let Err(e) = x.apply(&p, v2) {
            ctx.violation("sync", "answer-not-appliable", format!("self diff failed: {}", e), cj());
            return;
        }
        if x.sv() != sv0 || x.dump() != d0 || ds_points(x) != ds0 {
            ctx.violation("sync", "self-diff-changes-state", format!("applying one's own diff changed the replica: {} -> {}", show_model(&d0), show_model(&x.dump())), cj());
            return;
        }
    }
    // ping-pong to a fixpoint
    let mut rounds = 0;
    loop {
        rounds += 1;
        let before = (ra.sv(), ra.dump(), ds_points(ra), rb.sv(), rb.dump(), ds_points(rb));
        for (src, dst) in [(rb, ra), (ra, rb)] {
            let sv = dst.doc.transact().state_vector();
            let p = encode(src, &sv, true, v2);
            if let Err(e) = dst.apply(&p, v2) {
                ctx.violation("sync", "answer-not-appliable", format!("ping-pong failed: {}", e), cj());
                return;
            }
        }
        let after = (ra.sv(), ra.dump(), ds_points(ra), rb.sv(), rb.dump(), ds_points(rb));
        if before == after {
            break;
        }
        if rounds >= 16 {
            ctx.violation("sync", "exchange-does-not-settle", "16 exchange rounds without reaching a fixpoint".into(), cj());
            return;
        }
    }
    // both directions exchanged full states (incl. stashed updates): if nothing is pending any
    // more the replicas must be equal; if something is still pending, both miss the same thing
    if ra.dump() != rb.dump() || ra.sv() != rb.sv() || ds_points(ra) != ds_points(rb) {
        ctx.violation(
            "sync",
            "replicas-differ-after-exchange",
            format!(
                "after exchanging until nothing changes: A {} sv {:?} pending={} | B {} sv {:?} pending={}",
                show_model(&ra.dump()),
                ra.sv(),
                ra.pending(),
                show_model(&rb.dump()),
                rb.sv(),
                rb.pending()
            ),
            cj(),
        );
    }
    if let Some(want) = &reference {
        if !ra.pending() && !rb.pending() && &rb.dump() != want {
            ctx.violation(
                "sync",
                "content-incomplete-after-exchange",
                format!("after exchanging until nothing changes both show {} where the operations known to A and B give {}", show_model(&rb.dump()), show_model(want)),
                cj(),
            );
        }
    }
    let _ = Update::decode_v1(&[0, 0]);
    let _: Option<Model> = None;
}
