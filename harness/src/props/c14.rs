//! C14 — sticky indexes keep pointing at the same place.
use super::conv::*;
use crate::engine::*;
use crate::model::*;
use crate::ops::*;
use crate::seq::*;
use crate::world::*;
use serde_json::Value;
use std::collections::HashMap;
use yrs::updates::decoder::Decode;
use yrs::updates::encoder::Encode;
use yrs::{Assoc, IndexedSequence, OffsetKind, StickyIndex, Transact};

pub fn def() -> PropDef {
    PropDef {
        id: "C14",
        title: "sticky indexes keep pointing at the same place",
        shards: |t| t.pick(48, 192),
        run,
        replay,
        rule: "C01-style histories over txt/uni/arr/xml-children with uniquely tagged elements (Bytes and Utf16 offsets); for EVERY prefix of every visited history (creation point), every replica, every index 0..=n and both associations a sticky index is created (plus from_type start/end), passed through binary and serde-JSON round trips, and its anchor checked (After: the element at the index, Before: the element before it); then on EVERY later state of every replica (rest of the history) and on every lattice node of the final pool (every delivery order, states with gaps) that has integrated the anchor: get_offset() must equal the number of visible units before the anchor in the item sequence (hook dump, tombstone-aware) plus, for Before with a live anchor, the anchor's own length; type-scoped indexes stay at 0 / len; decoded copies resolve identically. distinct_nontrivial = distinct (anchor, association, resolved offset, anchor deleted?) observations after at least one later edit",
        assumptions: &[
            "expected position of a deleted anchor comes from the verif hook's item sequence",
            "anchors whose containing type was deleted are out of scope",
        ],
    }
}

fn rcu(client: u64, gc: bool, utf16: bool) -> RCfg {
    RCfg { client, gc, utf16, cleanup: true }
}

pub fn bounds(tier: Tier) -> Vec<ConvBound> {
    let mk = |fam, level, cfgs: Vec<RCfg>, depth, budget| ConvBound {
        fam,
        level,
        cfgs,
        depth,
        budget,
        kinds: K_DUP | K_MERGE,
        observers: vec![obs(true)],
        authors_receive: false,
        min_pool: 2,
    };
    match tier {
        Tier::Quick => vec![
            mk(Fam::Txt, 1, vec![rcu(1, true, false), rcu(2, true, false)], 3, 0),
            mk(Fam::Txt, 0, vec![rcu(1, true, false), rcu(2, false, false)], 4, 0),
            mk(Fam::Uni, 0, vec![rcu(1, true, true), rcu(2, true, false)], 3, 0),
            mk(Fam::Arr, 1, vec![rcu(1, true, false), rcu(2, true, false)], 3, 0),
            mk(Fam::Xml, 0, vec![rcu(1, true, false), rcu(2, true, false)], 3, 0),
            // formatting marks between the elements (an index next to a mark must still stick to the element)
            mk(Fam::Rtx, 0, vec![rcu(1, true, false), rcu(2, true, false)], 3, 0),
        ],
        Tier::Thorough => vec![
            mk(Fam::Txt, 1, vec![rcu(1, true, false), rcu(2, true, false)], 4, 0),
            mk(Fam::Rtx, 0, vec![rcu(1, true, false), rcu(2, true, false)], 3, 0),
            mk(Fam::Txt, 0, vec![rcu(1, true, false), rcu(2, false, false)], 5, 0),
            mk(Fam::Txt, 0, vec![rcu(1, true, false), rcu(2, true, false), rcu(3, true, false)], 4, 0),
            mk(Fam::Uni, 1, vec![rcu(1, true, true), rcu(2, true, false)], 3, 0),
            mk(Fam::Uni, 0, vec![rcu(1, true, false), rcu(2, true, true)], 4, 0),
            mk(Fam::Arr, 1, vec![rcu(1, true, false), rcu(2, true, false)], 4, 1),
            mk(Fam::Xml, 0, vec![rcu(1, true, false), rcu(2, true, false)], 4, 0),
        ],
    }
}

#[derive(Clone, Debug)]
struct Mark {
    st: StickyIndex,
    copies: Vec<StickyIndex>,
    created: String,
    /// anchor id (None for type-scoped)
    anchor: Option<(u64, u32)>,
    assoc_after: bool,
    /// type-scoped: expected to stay at start (false) / end (true)
    scope_end: bool,
}

#[derive(Default)]
pub struct C14Monitor {
    root: char,
    marks: Vec<Mark>,
    cache: HashMap<u64, Vec<Mark>>,
    later_edit: bool,
}

fn elem_len(e: &SeqElem, kind: OffsetKind) -> u32 {
    if !e.countable {
        return 0;
    }
    if e.content_ref == 4 {
        // string: one entry per UTF-16 unit; second half of an astral char is ""
        match kind {
            OffsetKind::Utf16 => 1,
            OffsetKind::Bytes => e.tag.len() as u32,
        }
    } else {
        1
    }
}

fn sticky_at(rep: &Replica, root: char, index: u32, assoc: Assoc) -> Option<StickyIndex> {
    let txn = rep.doc.transact();
    match root {
        'a' => rep.roots.a.sticky_index(&txn, index, assoc),
        'x' => rep.roots.x.sticky_index(&txn, index, assoc),
        _ => rep.roots.t.sticky_index(&txn, index, assoc),
    }
}

fn root_len(rep: &Replica, root: char) -> u32 {
    use yrs::{Array, Text, XmlFragment};
    let txn = rep.doc.transact();
    match root {
        'a' => rep.roots.a.len(&txn),
        'x' => rep.roots.x.len(&txn),
        _ => rep.roots.t.len(&txn),
    }
}

impl C14Monitor {
    /// create every mark on every replica of `w` (the creation point)
    fn create_marks(&mut self, ctx: &mut Ctx, w: &World, whence: &str, case: &dyn Fn() -> Value) -> Vec<Mark> {
        let mut out = Vec::new();
        for (ri, rep) in w.reps.iter().enumerate() {
            let kind = rep.cfg.kind();
            let sd = rep.store_dump();
            let Ok(seq) = root_sequence(&sd, &self.root.to_string()) else { continue };
            let vis: Vec<&SeqElem> = seq.iter().filter(|e| !e.deleted && e.countable).collect();
            // offsets of unit boundaries (in the replica's offset kind) that are element boundaries
            let mut boundaries: Vec<(u32, usize)> = vec![(0, 0)];
            let mut acc = 0;
            for (k, e) in vis.iter().enumerate() {
                acc += elem_len(e, kind);
                if elem_len(e, kind) > 0 || e.content_ref != 4 {
                    // skip the zero-length second half of an astral char in Bytes mode
                }
                boundaries.push((acc, k + 1));
            }
            boundaries.dedup_by_key(|b| b.0);
            let total = acc;
            if total != root_len(rep, self.root) {
                ctx.violation(
                    "sticky",
                    "len-disagrees-with-item-sequence",
                    format!("{}: replica {} len()={} but the item sequence has {} units", whence, ri, root_len(rep, self.root), total),
                    case(),
                );
                continue;
            }
            for (off, k) in &boundaries {
                // in Utf16 mode a boundary inside a surrogate pair is not a character boundary
                if *k < vis.len() && vis[*k].content_ref == 4 && vis[*k].tag.is_empty() {
                    continue;
                }
                for assoc in [Assoc::After, Assoc::Before] {
                    let created = format!("{} replica {} index {} {:?}", whence, ri, off, assoc);
                    let st = sticky_at(rep, self.root, *off, assoc);
                    let after = assoc == Assoc::After;
                    let Some(st) = st else {
                        // by design: After at the very end has no element to attach to
                        if !(after && *k == vis.len()) {
                            ctx.violation("sticky", "creation-refused", format!("{}: sticky_index returned None", created), case());
                        }
                        continue;
                    };
                    // expected anchor element
                    let want_anchor: Option<(u64, u32)> = if after {
                        vis.get(*k).map(|e| e.id)
                    } else if *k == 0 {
                        None
                    } else {
                        // last clock unit of the element before the index
                        let mut j = *k - 1;
                        while j + 1 < vis.len() && vis[j + 1].content_ref == 4 && vis[j + 1].tag.is_empty() && j + 1 < *k {
                            j += 1;
                        }
                        Some(vis[j].id)
                    };
                    let got_anchor = st.id().map(|i| (i.client.get(), i.clock));
                    if got_anchor != want_anchor {
                        ctx.violation(
                            "sticky",
                            "wrong-anchor",
                            format!("{}: anchored to {:?} but the element {} the index is {:?} (visible {:?})", created, got_anchor, if after { "at" } else { "before" }, want_anchor, vis.iter().map(|e| &e.tag).collect::<Vec<_>>()),
                            case(),
                        );
                        continue;
                    }
                    // serialization round trips
                    let mut copies = Vec::new();
                    match StickyIndex::decode_v1(&st.encode_v1()) {
                        Ok(c) if c == st => copies.push(c),
                        other => {
                            ctx.violation("sticky", "binary-roundtrip", format!("{}: {:?} decodes to {:?}", created, st, other), case());
                            continue;
                        }
                    }
                    match serde_json::to_string(&st).ok().and_then(|j| serde_json::from_str::<StickyIndex>(&j).ok()) {
                        Some(c) if c == st => copies.push(c),
                        other => {
                            ctx.violation("sticky", "json-roundtrip", format!("{}: {:?} round-trips to {:?}", created, st, other), case());
                            continue;
                        }
                    }
                    out.push(Mark { st, copies, created, anchor: got_anchor, assoc_after: after, scope_end: false });
                }
            }
            // type-scoped indexes
            for (assoc, end) in [(Assoc::Before, false), (Assoc::After, true)] {
                let txn = rep.doc.transact();
                let st = match self.root {
                    'a' => StickyIndex::from_type(&txn, &rep.roots.a, assoc),
                    'x' => StickyIndex::from_type(&txn, &rep.roots.x, assoc),
                    _ => StickyIndex::from_type(&txn, &rep.roots.t, assoc),
                };
                out.push(Mark { st, copies: vec![], created: format!("{} replica {} from_type {:?}", whence, ri, assoc), anchor: None, assoc_after: end, scope_end: end });
            }
        }
        out
    }

    fn check_marks(&mut self, ctx: &mut Ctx, rep: &Replica, whence: &str, case: &dyn Fn() -> Value) {
        let kind = rep.cfg.kind();
        let sd = rep.store_dump();
        let Ok(seq) = root_sequence(&sd, &self.root.to_string()) else { return };
        let txn = rep.doc.transact();
        let total: u32 = seq.iter().filter(|e| !e.deleted).map(|e| elem_len(e, kind)).sum();
        for m in &self.marks {
            let expected: u32 = match m.anchor {
                None => {
                    if m.scope_end {
                        total
                    } else {
                        0
                    }
                }
                Some(id) => {
                    if !integrated(&sd, id) {
                        continue;
                    }
                    let Some(p) = seq.iter().position(|e| e.id == id) else {
                        // the anchor is integrated but not part of the root's list (collected
                        // together with a deleted parent): out of scope
                        continue;
                    };
                    let before: u32 = seq[..p].iter().filter(|e| !e.deleted).map(|e| elem_len(e, kind)).sum();
                    let a = &seq[p];
                    if a.deleted || !a.countable {
                        before
                    } else if m.assoc_after {
                        before
                    } else {
                        before + elem_len(a, kind)
                    }
                }
            };
            let mut all = vec![&m.st];
            all.extend(m.copies.iter());
            for (ci, st) in all.iter().enumerate() {
                let got = st.get_offset(&txn).map(|o| o.index);
                if got != Some(expected) {
                    let deleted = m.anchor.and_then(|id| seq.iter().find(|e| e.id == id)).map(|e| e.deleted);
                    ctx.violation(
                        "sticky",
                        if ci > 0 {
                            "decoded-copy-resolves-differently"
                        } else if deleted == Some(true) {
                            "wrong-offset-for-deleted-anchor"
                        } else if m.anchor.is_none() {
                            "type-scoped-index-moved"
                        } else {
                            "wrong-offset"
                        },
                        format!(
                            "{}: index created at [{}] (anchor {:?}, {}) resolves to {:?}, expected {} (sequence {:?})",
                            whence,
                            m.created,
                            m.anchor,
                            if m.assoc_after { "After" } else { "Before" },
                            got,
                            expected,
                            seq.iter().map(|e| format!("{}{}", if e.deleted { "~" } else { "" }, e.tag)).collect::<Vec<_>>()
                        ),
                        case(),
                    );
                    return;
                }
                if self.later_edit {
                    let deleted = m.anchor.and_then(|id| seq.iter().find(|e| e.id == id)).map(|e| e.deleted);
                    ctx.outcome(hash_of(&(m.anchor, m.assoc_after, expected, deleted)));
                }
            }
        }
    }
}

impl Monitor for C14Monitor {
    fn history_state(&mut self, ctx: &mut Ctx, w: &World, trace: &[Act], case: &dyn Fn() -> Value) {
        // every prefix is a creation point; the current state is the "later" state
        let cfgs: Vec<RCfg> = w.reps.iter().map(|r| r.cfg).collect();
        self.marks.clear();
        for k in 0..=trace.len() {
            let key = hash_of(&(&cfgs, &trace[..k]));
            if !self.cache.contains_key(&key) {
                let marks = match World::build(&cfgs, &trace[..k]) {
                    Ok(wk) => self.create_marks(ctx, &wk, &format!("after step {}", k), case),
                    Err(_) => Vec::new(),
                };
                if self.cache.len() > 200_000 {
                    self.cache.clear();
                }
                self.cache.insert(key, marks);
            }
            self.marks.extend(self.cache[&key].iter().cloned());
        }
        self.later_edit = trace.len() > 0;
        for (i, rep) in w.reps.iter().enumerate() {
            self.check_marks(ctx, rep, &format!("replica {} after the whole history", i), case);
        }
    }

    fn begin_pool(&mut self, _ctx: &mut Ctx, _b: &ConvBound, _w: &World, _trace: &[Act]) {
        // marks of all prefixes were collected by history_state for this very trace
    }

    fn node(&mut self, ctx: &mut Ctx, _pool: &[Upd], node: &LatticeNode, case: &dyn Fn() -> Value) {
        self.later_edit = true;
        let whence = format!("receiver after path {:?}", node.path);
        self.check_marks(ctx, node.recv.rep(), &whence, case);
    }
}

fn root_of(fam: Fam) -> char {
    match fam {
        Fam::Arr => 'a',
        Fam::Xml => 'x',
        _ => 't',
    }
}

fn run(ctx: &mut Ctx) {
    for b in bounds(ctx.tier) {
        let mut mon = C14Monitor::default();
        mon.root = root_of(b.fam);
        run_conv(ctx, &[b], &mut mon);
    }
}

fn replay(ctx: &mut Ctx, case: &Value) {
    let b = bounds(Tier::Quick);
    let fam: Fam = serde_json::from_value(case["fam"].clone()).unwrap_or(Fam::Txt);
    let mut mon = C14Monitor::default();
    mon.root = root_of(fam);
    replay_case(ctx, case, &mut mon, &b[0]);
    let _: Option<Model> = None;
}
