//! C04 — sequence elements: exactly once, stable relative order, placed where inserted.
use super::conv::*;
use crate::engine::*;
use crate::ops::Fam;
use crate::seq::*;
use crate::world::*;
use serde_json::Value;
use std::collections::{BTreeSet, HashMap};
use yrs::updates::decoder::Decode;
use yrs::Update;

pub fn def() -> PropDef {
    PropDef {
        id: "C04",
        title: "elements exactly once, stable order, placed where inserted",
        shards: |t| t.pick(48, 192),
        run,
        replay,
        rule: "C01's histories over txt/arr/xml-children with uniquely tagged elements; monitor on every author state along the history and every lattice node (every delivery order): (1) an element is visible iff its id is integrated (hook store dump) and no delivered update deletes it, never twice; (2) a global before(x,y) relation fixed the first time two elements are visible together (author states included, so an insertion between visible neighbours and the order inside a multi-element insertion are fixed at insertion time) must hold in every later state of every replica. distinct_nontrivial = distinct visible sequences with >= 2 elements",
        assumptions: &[
            "element identity = unique tag content written by the harness; tag->id learnt from the author's store dump",
            "undo/redo excluded (C12)",
        ],
    }
}

pub fn bounds(tier: Tier) -> Vec<ConvBound> {
    let two = vec![rc(1, true), rc(2, true)];
    let three = vec![rc(1, true), rc(2, false), rc(3, true)];
    let mk = |fam, level, cfgs: &Vec<_>, depth, budget| ConvBound {
        fam,
        level,
        cfgs: cfgs.clone(),
        depth,
        budget,
        kinds: K_DUP | K_MERGE,
        observers: vec![obs(true)],
        authors_receive: true,
        min_pool: 2,
    };
    match tier {
        Tier::Quick => vec![
            mk(Fam::Txt, 1, &two, 3, 0),
            mk(Fam::Txt, 0, &two, 4, 0),
            mk(Fam::Arr, 1, &two, 3, 0),
            mk(Fam::Xml, 0, &two, 3, 0),
        ],
        Tier::Thorough => vec![
            mk(Fam::Txt, 1, &two, 4, 1),
            mk(Fam::Txt, 0, &two, 5, 0),
            mk(Fam::Txt, 0, &three, 4, 0),
            mk(Fam::Arr, 1, &two, 4, 1),
            mk(Fam::Arr, 0, &three, 4, 0),
            mk(Fam::Xml, 0, &two, 4, 0),
        ],
    }
}

#[derive(Default)]
pub struct C04Monitor {
    root: char,
    /// before[(x,y)] = (true, where first seen)
    before: HashMap<(String, String), String>,
    tag_id: HashMap<String, (u64, u32)>,
    /// per pool update: deleted id points
    deletes: Vec<BTreeSet<(u64, u32)>>,
    ok: bool,
}

impl C04Monitor {
    fn observe(
        &mut self,
        ctx: &mut Ctx,
        rep: &Replica,
        delivered: u32,
        whence: &str,
        case: &dyn Fn() -> Value,
    ) {
        let dump = rep.dump();
        let Some(node) = dump.get(&self.root) else { return };
        let vis = visible_tags(node);
        let sd = rep.store_dump();
        let name = self.root.to_string();
        let seq = match root_sequence(&sd, &name) {
            Ok(s) => s,
            Err(e) => {
                ctx.violation("element-order", "broken-item-list", e, case());
                return;
            }
        };
        // learn tag -> id from live items
        for e in &seq {
            if !e.deleted && e.countable && !e.tag.is_empty() && e.tag != "~" {
                let tag = self.norm_tag(e);
                if let Some(t) = tag {
                    self.tag_id.entry(t).or_insert(e.id);
                }
            }
        }
        // (1) never twice
        let mut seen = BTreeSet::new();
        for t in &vis {
            if t == "#text" {
                continue;
            }
            if !seen.insert(t.clone()) {
                ctx.violation(
                    "exactly-once",
                    "element-visible-twice",
                    format!("{}: element {:?} is visible twice in {:?}", whence, t, vis),
                    case(),
                );
                return;
            }
        }
        // (1) visible iff integrated and not deleted by a delivered update
        let mut deleted_pts: BTreeSet<(u64, u32)> = BTreeSet::new();
        for (i, ds) in self.deletes.iter().enumerate() {
            if delivered & (1 << i) != 0 {
                deleted_pts.extend(ds.iter().copied());
            }
        }
        for (tag, id) in &self.tag_id {
            let want = integrated(&sd, *id) && !deleted_pts.contains(id);
            let got = seen.contains(tag);
            if want != got {
                ctx.violation(
                    "exactly-once",
                    if got {
                        "visible-although-deleted-or-absent"
                    } else {
                        "integrated-undeleted-but-invisible"
                    },
                    format!(
                        "{}: element {:?} id {:?}: visible={} but integrated={} deleted-by-delivered-update={} (visible {:?})",
                        whence,
                        tag,
                        id,
                        got,
                        integrated(&sd, *id),
                        deleted_pts.contains(id),
                        vis
                    ),
                    case(),
                );
                return;
            }
        }
        if vis.len() >= 2 {
            ctx.outcome(hash_of(&vis));
        }
        // (2) pairwise order is stable
        for i in 0..vis.len() {
            if vis[i] == "#text" {
                continue;
            }
            for j in (i + 1)..vis.len() {
                if vis[j] == "#text" {
                    continue;
                }
                let k = (vis[i].clone(), vis[j].clone());
                let rk = (vis[j].clone(), vis[i].clone());
                if let Some(first) = self.before.get(&rk) {
                    ctx.violation(
                        "element-order",
                        "relative-order-changed",
                        format!(
                            "{}: {:?} is before {:?} here (visible {:?}) but was after it at {}",
                            whence, vis[i], vis[j], vis, first
                        ),
                        case(),
                    );
                    return;
                }
                self.before
                    .entry(k)
                    .or_insert_with(|| format!("{} {:?}", whence, vis));
            }
        }
    }

    fn norm_tag(&self, e: &SeqElem) -> Option<String> {
        match self.root {
            't' => {
                if e.content_ref == 4 {
                    Some(e.tag.clone())
                } else if e.content_ref == 5 {
                    Some(e.tag.clone())
                } else {
                    None
                }
            }
            'a' => {
                if e.content_ref == 8 {
                    Some(e.tag.clone())
                } else {
                    None
                }
            }
            'x' => {
                // "<xml element: e3>"
                e.tag
                    .strip_prefix("<xml element: ")
                    .and_then(|s| s.strip_suffix('>'))
                    .map(|s| s.to_string())
            }
            _ => None,
        }
    }
}

impl Monitor for C04Monitor {
    fn begin_pool(&mut self, ctx: &mut Ctx, b: &ConvBound, w: &World, trace: &[Act]) {
        self.root = match b.fam {
            Fam::Arr => 'a',
            Fam::Xml => 'x',
            _ => 't',
        };
        self.before.clear();
        self.tag_id.clear();
        self.deletes.clear();
        self.ok = true;
        for u in &w.pool {
            match Update::decode_v1(&u.v1) {
                Ok(upd) => {
                    let d = yrs::verif::update_dump(&upd);
                    self.deletes.push(
                        d.delete_set
                            .iter()
                            .flat_map(|(c, s, e)| (*s..*e).map(move |k| (*c, k)))
                            .collect(),
                    );
                }
                Err(_) => {
                    self.ok = false;
                    return;
                }
            }
        }
        // author states along the history (fixes insertion-time neighbour order)
        let cj = || case_json(b, trace, "history", &[]);
        for k in 1..=trace.len() {
            if let Ok(wk) = World::build(&b.cfgs, &trace[..k]) {
                for (i, rep) in wk.reps.iter().enumerate() {
                    let m = mask_of(&rep.known);
                    self.observe(ctx, rep, m, &format!("author{} after step {}", i, k), &cj);
                }
            }
        }
    }

    fn node(&mut self, ctx: &mut Ctx, _pool: &[Upd], node: &LatticeNode, case: &dyn Fn() -> Value) {
        if !self.ok {
            return;
        }
        let whence = format!("receiver after path {:?}", node.path);
        self.observe(ctx, node.recv.rep(), node.mask, &whence, case);
    }
}

fn run(ctx: &mut Ctx) {
    let b = bounds(ctx.tier);
    let mut mon = C04Monitor::default();
    run_conv(ctx, &b, &mut mon);
}

fn replay(ctx: &mut Ctx, case: &Value) {
    let b = bounds(Tier::Quick);
    let mut mon = C04Monitor::default();
    replay_case(ctx, case, &mut mon, &b[0]);
}
