//! C01 — strong eventual consistency of all shared types.
use super::conv::*;
use crate::engine::*;
use crate::ops::Fam;
use crate::world::*;
use serde_json::Value;

pub fn def() -> PropDef {
    PropDef {
        id: "C01",
        title: "strong eventual consistency",
        shards: |t| t.pick(48, 192),
        run,
        replay,
        rule: "all histories of L local ops (family alphabets, positions {0,mid,end}, unique tags) on R real replicas with every placement of causal syncs, state-matched on the canonical internal dump; for each distinct update pool every delivery order (subset lattice over (delivered set, internal state, deviations used)) to fresh observers (gc on/off) and to the author replicas, with <= B deviations (duplicate, v2 link, merge_updates of a pair, diff_updates against the receiver's sv, relay through encode_state_as_update of the receiver); distinct_nontrivial = distinct final contents of pools with >= 2 updates",
        assumptions: &[
            "happened-before is tracked by the harness (knowledge sets at commit time)",
            "visible dump = harness/src/dump.rs (public read API only)",
            "observers run with cleanup_formatting=false, authors with true",
        ],
    }
}

pub fn bounds(tier: Tier) -> Vec<ConvBound> {
    let two = vec![rc(1, true), rc(2, true)];
    let two_rev = vec![rc(2, true), rc(1, false)];
    let three = vec![rc(1, true), rc(2, true), rc(3, false)];
    let mk = |fam, level, cfgs: &Vec<_>, depth, budget, v2, authors| ConvBound {
        fam,
        level,
        cfgs: cfgs.clone(),
        depth,
        budget,
        kinds: if v2 { K_ALL } else { K_ALL & !K_V2 },
        observers: vec![obs(true), obs(false)],
        authors_receive: authors,
        min_pool: 2,
    };
    match tier {
        Tier::Quick => vec![
            mk(Fam::Txt, 0, &two, 3, 1, true, true),
            mk(Fam::Txt, 0, &two, 4, 0, false, false),
            mk(Fam::Map, 1, &two, 3, 1, true, true),
            mk(Fam::Map, 0, &two_rev, 4, 0, false, true),
            mk(Fam::Arr, 0, &two, 3, 1, false, true),
            mk(Fam::Rtx, 0, &two, 3, 0, false, false),
            mk(Fam::Rtx, 4, &two, 3, 0, false, false),
            mk(Fam::Xml, 0, &two, 3, 0, false, false),
            mk(Fam::Nest, 0, &two_rev, 3, 0, false, true),
        ],
        Tier::Thorough => vec![
            mk(Fam::Txt, 0, &two, 4, 2, true, true),
            mk(Fam::Txt, 0, &two, 5, 0, false, false),
            mk(Fam::Txt, 0, &three, 3, 1, true, true),
            mk(Fam::Txt, 0, &three, 4, 0, false, true),
            mk(Fam::Txt, 1, &two, 3, 2, true, true),
            mk(Fam::Map, 1, &two, 4, 1, true, true),
            mk(Fam::Map, 0, &three, 4, 0, false, true),
            mk(Fam::Arr, 0, &two, 4, 1, true, true),
            mk(Fam::Arr, 1, &two, 3, 2, true, true),
            mk(Fam::Rtx, 0, &two, 4, 0, false, true),
            mk(Fam::Rtx, 0, &two, 3, 2, true, true),
            mk(Fam::Rtx, 4, &two, 3, 1, true, true),
            mk(Fam::Xml, 0, &two, 4, 0, false, true),
            mk(Fam::Xml, 0, &two, 3, 2, true, true),
            mk(Fam::Nest, 0, &two_rev, 4, 0, false, true),
            mk(Fam::Nest, 0, &two_rev, 3, 2, true, true),
            mk(Fam::Uni, 0, &two, 3, 1, true, true),
        ],
    }
}

fn run(ctx: &mut Ctx) {
    let b = bounds(ctx.tier);
    let mut mon = C01Monitor::default();
    run_conv(ctx, &b, &mut mon);
}

fn replay(ctx: &mut Ctx, case: &Value) {
    let b = bounds(Tier::Quick);
    let mut mon = C01Monitor::default();
    replay_case(ctx, case, &mut mon, &b[0]);
}
