//! C07 — update events form a complete, minimal replication log.
use super::conv::show_model;
use crate::engine::*;
use crate::model::*;
use crate::ops::*;
use crate::world::*;
use serde::{Deserialize, Serialize};
use serde_json::{json, Value};
use std::cell::Cell;
use std::collections::{BTreeSet, HashMap};
use std::rc::Rc;
use std::sync::atomic::{AtomicU64, Ordering};
use std::sync::Arc;
use yrs::updates::decoder::Decode;
use yrs::{ReadTxn, Transact, UndoManager, Update};

pub fn def() -> PropDef {
    PropDef {
        id: "C07",
        title: "update events are a complete, minimal replication log",
        shards: |t| t.pick(32, 128),
        run,
        replay,
        rule: "one emitting document D (gc on/off, format clean-up on, UndoManager on the family's root), one remote author E, two passive followers F1 (fed only D's v1 events) and F2 (only v2), clean-up off; ALL sequences of <= L actions from {local op on D, local op on E, E syncs from D, deliver E's i-th update to D in any order incl. duplicates and gaps, deliver merge of two E updates, undo, redo, forced gc}, state-matched on all four internal dumps; after every D transaction its events are applied to the followers and visible dump, state vector and delete set of F1 and F2 must equal D's; #v1 events == #v2 events <= 1 per transaction, 1 if D's content/delete set/state vector changed, 0 if D's internal state did not change. distinct_nontrivial = distinct (transaction kind, D content) situations with a non-empty event",
        assumptions: &[
            "remote updates are applied to D under a non-tracked origin",
            "followers have the same gc setting as D",
        ],
    }
}

#[derive(Clone, Debug, PartialEq, Eq, Hash, Serialize, Deserialize)]
pub enum A7 {
    D(Op),
    E(Op),
    /// E receives all events D emitted so far
    SyncE,
    /// deliver E's i-th update to D (any order, may be a duplicate)
    Deliver(usize),
    DeliverMerged(usize, usize),
    Undo,
    Redo,
    Gc,
}

#[derive(Clone, Debug, Serialize, Deserialize)]
pub struct Cfg7 {
    pub fam: Fam,
    pub level: u8,
    pub gc: bool,
    pub undo: bool,
}

struct W7 {
    d: Replica,
    e: Replica,
    f1: Replica,
    f2: Replica,
    um: Option<UndoManager>,
    clock: Arc<AtomicU64>,
    /// E's updates (v1, v2)
    e_updates: Vec<(Vec<u8>, Vec<u8>)>,
    /// D's v1 events so far (for SyncE)
    d_events: Vec<Vec<u8>>,
    e_known_d: usize,
    delivered: BTreeSet<usize>,
    nops: usize,
}

fn ds_points(rep: &Replica) -> BTreeSet<(u64, u32)> {
    let txn = rep.doc.transact();
    let ds = txn.snapshot().delete_set;
    let mut s = BTreeSet::new();
    for (c, ranges) in ds.iter() {
        for r in ranges.iter() {
            for k in r.start..r.end {
                s.insert((c.get(), k));
            }
        }
    }
    s
}

impl W7 {
    fn new(cfg: &Cfg7) -> W7 {
        let d = Replica::new(RCfg { client: 5, gc: cfg.gc, utf16: false, cleanup: true });
        let e = Replica::new(RCfg { client: 3, gc: true, utf16: false, cleanup: true });
        let f1 = Replica::new(RCfg { client: 901, gc: cfg.gc, utf16: false, cleanup: false });
        let f2 = Replica::new(RCfg { client: 902, gc: cfg.gc, utf16: false, cleanup: false });
        let clock = Arc::new(AtomicU64::new(1000));
        let um = if cfg.undo {
            let c2 = clock.clone();
            let mut o = yrs::undo::Options::default();
            o.capture_timeout_millis = 10;
            o.timestamp = Arc::new(move || c2.load(Ordering::SeqCst));
            let mut um = UndoManager::with_options(o);
            match cfg.fam {
                Fam::Arr => um.expand_scope(&d.doc, &d.roots.a),
                Fam::Map => um.expand_scope(&d.doc, &d.roots.m),
                Fam::Xml => um.expand_scope(&d.doc, &d.roots.x),
                Fam::Nest => {
                    um.expand_scope(&d.doc, &d.roots.a);
                    um.expand_scope(&d.doc, &d.roots.m);
                }
                _ => um.expand_scope(&d.doc, &d.roots.t),
            }
            Some(um)
        } else {
            None
        };
        W7 {
            d,
            e,
            f1,
            f2,
            um,
            clock,
            e_updates: Vec::new(),
            d_events: Vec::new(),
            e_known_d: 0,
            delivered: BTreeSet::new(),
            nops: 0,
        }
    }

    /// run a D transaction and judge its events; Err((class, msg)) is a verdict
    fn d_txn(&mut self, what: &str, f: &mut dyn FnMut(&mut W7) -> Result<(), String>) -> Result<(), (String, String)> {
        let before_store = self.d.store_hash();
        let before_dump = self.d.dump();
        let before_ds = ds_points(&self.d);
        let before_sv = self.d.sv();
        self.d.capture.borrow_mut().clear();
        // every transaction is its own capture step
        self.clock.fetch_add(100, Ordering::SeqCst);
        f(self).map_err(|e| ("transaction-failed".to_string(), format!("{}: {}", what, e)))?;
        let evs: Vec<(bool, Vec<u8>)> = self.d.capture.borrow_mut().drain(..).collect();
        let v1: Vec<Vec<u8>> = evs.iter().filter(|e| !e.0).map(|e| e.1.clone()).collect();
        let v2: Vec<Vec<u8>> = evs.iter().filter(|e| e.0).map(|e| e.1.clone()).collect();
        if v1.len() != v2.len() || v1.len() > 1 {
            return Err((
                "event-count".into(),
                format!("{}: transaction emitted {} v1 and {} v2 events", what, v1.len(), v2.len()),
            ));
        }
        let after_dump = self.d.dump();
        let after_ds = ds_points(&self.d);
        let after_sv = self.d.sv();
        let changed = after_dump != before_dump || after_ds != before_ds || after_sv != before_sv;
        if changed && v1.is_empty() {
            return Err((
                "no-event-for-change".into(),
                format!(
                    "{}: D changed ({} -> {}, deletes {} -> {}, sv {:?} -> {:?}) but no update event was emitted",
                    what,
                    show_model(&before_dump),
                    show_model(&after_dump),
                    before_ds.len(),
                    after_ds.len(),
                    before_sv,
                    after_sv
                ),
            ));
        }
        if !v1.is_empty() && self.d.store_hash() == before_store {
            return Err((
                "event-for-no-change".into(),
                format!("{}: D's internal state did not change but an update event was emitted", what),
            ));
        }
        for (i, (bytes, is_v2)) in [(v1.first(), false), (v2.first(), true)].iter().enumerate() {
            if let Some(b) = bytes {
                let f = if i == 0 { &self.f1 } else { &self.f2 };
                if let Err(e) = f.apply(b, *is_v2) {
                    return Err((
                        "event-not-appliable".into(),
                        format!("{}: follower cannot apply the {} event: {}", what, if *is_v2 { "v2" } else { "v1" }, e),
                    ));
                }
            }
        }
        if let Some(b) = v1.first() {
            self.d_events.push(b.clone());
        }
        for (name, f) in [("F1(v1 stream)", &self.f1), ("F2(v2 stream)", &self.f2)] {
            let fd = f.dump();
            if fd != after_dump {
                return Err((
                    "follower-content-differs".into(),
                    format!("{}: D shows {} but {} shows {}", what, show_model(&after_dump), name, show_model(&fd)),
                ));
            }
            let fds = ds_points(f);
            if fds != after_ds {
                return Err((
                    "follower-deletes-differ".into(),
                    format!(
                        "{}: D's deleted ids {:?} but {} has {:?}",
                        what,
                        after_ds.symmetric_difference(&fds).collect::<Vec<_>>(),
                        name,
                        fds.len()
                    ),
                ));
            }
            if f.sv() != after_sv {
                return Err((
                    "follower-state-vector-differs".into(),
                    format!("{}: D's sv {:?} but {} has {:?}", what, after_sv, name, f.sv()),
                ));
            }
        }
        Ok(())
    }

    fn step(&mut self, a: &A7) -> Result<(), (String, String)> {
        match a {
            A7::D(op) => {
                self.nops += 1;
                let op = op.clone();
                self.d_txn(&format!("local {:?}", op), &mut |w: &mut W7| {
                    let mut txn = w.d.doc.transact_mut();
                    apply_real(&w.d.roots, &mut txn, w.d.cfg.kind(), &op)
                })
            }
            A7::E(op) => {
                self.nops += 1;
                self.e.capture.borrow_mut().clear();
                {
                    let mut txn = self.e.doc.transact_mut();
                    apply_real(&self.e.roots, &mut txn, self.e.cfg.kind(), op)
                        .map_err(|e| ("harness".to_string(), e))?;
                }
                let evs: Vec<(bool, Vec<u8>)> = self.e.capture.borrow_mut().drain(..).collect();
                let v1 = evs.iter().find(|e| !e.0).map(|e| e.1.clone());
                let v2 = evs.iter().find(|e| e.0).map(|e| e.1.clone());
                if let (Some(a), Some(b)) = (v1, v2) {
                    self.e_updates.push((a, b));
                }
                Ok(())
            }
            A7::SyncE => {
                for i in self.e_known_d..self.d_events.len() {
                    self.e
                        .apply(&self.d_events[i], false)
                        .map_err(|e| ("event-not-appliable".to_string(), format!("E cannot apply D's event: {}", e)))?;
                }
                self.e_known_d = self.d_events.len();
                Ok(())
            }
            A7::Deliver(i) => {
                let bytes = self.e_updates[*i].0.clone();
                self.delivered.insert(*i);
                self.d_txn(&format!("apply E's update {}", i), &mut |w: &mut W7| {
                    let u = Update::decode_v1(&bytes).map_err(|e| e.to_string())?;
                    let mut txn = w.d.doc.transact_mut_with("remote");
                    txn.apply_update(u).map_err(|e| e.to_string())
                })
            }
            A7::DeliverMerged(i, j) => {
                let bytes = yrs::merge_updates_v1([&self.e_updates[*i].0, &self.e_updates[*j].0])
                    .map_err(|e| ("merge-failed".to_string(), e.to_string()))?;
                self.delivered.insert(*i);
                self.delivered.insert(*j);
                self.d_txn(&format!("apply merge of E's updates {},{}", i, j), &mut |w: &mut W7| {
                    let u = Update::decode_v1(&bytes).map_err(|e| e.to_string())?;
                    let mut txn = w.d.doc.transact_mut_with("remote");
                    txn.apply_update(u).map_err(|e| e.to_string())
                })
            }
            A7::Undo => self.d_txn("undo", &mut |w: &mut W7| {
                if let Some(um) = w.um.as_mut() {
                    um.undo_blocking();
                }
                Ok(())
            }),
            A7::Redo => self.d_txn("redo", &mut |w: &mut W7| {
                if let Some(um) = w.um.as_mut() {
                    um.redo_blocking();
                }
                Ok(())
            }),
            A7::Gc => self.d_txn("forced gc", &mut |w: &mut W7| {
                let mut txn = w.d.doc.transact_mut_with("gc");
                txn.gc(None);
                Ok(())
            }),
        }
    }

    fn key(&self) -> u64 {
        hash_of(&(
            self.d.store_hash(),
            self.e.store_hash(),
            self.f1.store_hash(),
            self.f2.store_hash(),
            &self.delivered,
            self.e_known_d,
            self.um.as_ref().map(|u| (u.undo_stack().len(), u.redo_stack().len())),
            self.e_updates.len(),
        ))
    }

    fn enabled(&self, cfg: &Cfg7, len: usize, max: usize) -> Vec<A7> {
        let mut out = Vec::new();
        if len >= max {
            return out;
        }
        for op in gen_ops(cfg.fam, &self.d.dump(), self.nops, cfg.level) {
            out.push(A7::D(op));
        }
        // E: a smaller alphabet (level 0)
        for op in gen_ops(cfg.fam, &self.e.dump(), self.nops, 0) {
            out.push(A7::E(op));
        }
        if self.e_known_d < self.d_events.len() {
            out.push(A7::SyncE);
        }
        for i in 0..self.e_updates.len() {
            out.push(A7::Deliver(i));
            for j in (i + 1)..self.e_updates.len() {
                if !self.delivered.contains(&i) || !self.delivered.contains(&j) {
                    out.push(A7::DeliverMerged(i, j));
                }
            }
        }
        if let Some(um) = self.um.as_ref() {
            if um.can_undo() {
                out.push(A7::Undo);
            }
            if um.can_redo() {
                out.push(A7::Redo);
            }
        }
        if !ds_points(&self.d).is_empty() {
            out.push(A7::Gc);
        }
        out
    }
}

fn bounds(tier: Tier) -> Vec<(Cfg7, usize)> {
    let c = |fam, level, gc, undo| Cfg7 { fam, level, gc, undo };
    match tier {
        Tier::Quick => vec![
            (c(Fam::Txt, 0, true, true), 5),
            (c(Fam::Txt, 0, false, false), 5),
            (c(Fam::Map, 1, true, true), 5),
            (c(Fam::Rtx, 0, true, false), 4),
            (c(Fam::Nest, 0, true, true), 4),
            (c(Fam::Arr, 0, true, true), 4),
        ],
        Tier::Thorough => vec![
            (c(Fam::Txt, 0, true, true), 6),
            (c(Fam::Txt, 1, false, true), 5),
            (c(Fam::Txt, 0, false, false), 7),
            (c(Fam::Map, 1, true, true), 6),
            (c(Fam::Map, 1, false, false), 6),
            (c(Fam::Rtx, 0, true, true), 5),
            (c(Fam::Rtx, 1, true, false), 4),
            (c(Fam::Arr, 1, true, true), 5),
            (c(Fam::Nest, 0, true, true), 5),
            (c(Fam::Xml, 0, true, true), 5),
        ],
    }
}

fn build(cfg: &Cfg7, trace: &[A7]) -> (W7, Option<(String, String)>) {
    let mut w = W7::new(cfg);
    for a in trace {
        if let Err(e) = w.step(a) {
            return (w, Some(e));
        }
    }
    (w, None)
}

fn dfs(
    ctx: &mut Ctx,
    cfg: &Cfg7,
    max: usize,
    trace: &mut Vec<A7>,
    visited: &mut HashMap<u64, usize>,
    idx: &mut u64,
) {
    if ctx.out_of_time() {
        return;
    }
    let case = json!({"cfg": cfg, "trace": trace});
    let cj = || case.clone();
    let res = ctx.exec(&cj, |ctx| {
        ctx.count("transitions", trace.len() as u64);
        build(cfg, trace)
    });
    let Some((w, verdict)) = res else { return };
    if let Some((class, msg)) = verdict {
        if class == "harness" {
            ctx.machinery_error(format!("{} on {}", msg, case));
        } else {
            ctx.violation("event-log", &class, msg, cj());
        }
        return;
    }
    ctx.sample(cj);
    let key = w.key();
    let remaining = max - trace.len();
    match visited.get(&key) {
        Some(&r) if r >= remaining => {
            ctx.count("pruned_revisits", 1);
            return;
        }
        _ => {}
    }
    visited.insert(key, remaining);
    ctx.state(key);
    if let Some(a) = trace.last() {
        let kind = match a {
            A7::D(_) => 0,
            A7::Deliver(_) => 1,
            A7::DeliverMerged(..) => 2,
            A7::Undo => 3,
            A7::Redo => 4,
            A7::Gc => 5,
            _ => 6,
        };
        if kind < 6 {
            ctx.outcome(hash_of(&(kind, w.d.dump(), w.d.pending())));
        }
    }
    let acts = w.enabled(cfg, trace.len(), max);
    drop(w);
    for a in acts {
        if trace.len() == 1 {
            *idx += 1;
            if !ctx.mine(*idx) {
                continue;
            }
        }
        trace.push(a);
        dfs(ctx, cfg, max, trace, visited, idx);
        trace.pop();
    }
}

fn run(ctx: &mut Ctx) {
    let mut idx = 0u64;
    for (cfg, max) in bounds(ctx.tier) {
        let mut visited = HashMap::new();
        let mut trace = Vec::new();
        dfs(ctx, &cfg, max, &mut trace, &mut visited, &mut idx);
    }
}

fn replay(ctx: &mut Ctx, case: &Value) {
    let cfg: Cfg7 = match serde_json::from_value(case["cfg"].clone()) {
        Ok(c) => c,
        Err(e) => return ctx.machinery_error(format!("bad case: {}", e)),
    };
    let trace: Vec<A7> = match serde_json::from_value(case["trace"].clone()) {
        Ok(c) => c,
        Err(e) => return ctx.machinery_error(format!("bad case: {}", e)),
    };
    let cj = || case.clone();
    let res = ctx.exec(&cj, |_| build(&cfg, &trace));
    if let Some((w, Some((class, msg)))) = res {
        if std::env::var("VERIF_TRACE").is_ok() {
            eprintln!("D: {}\nF1: {}", show_store(&w.d.store_dump()), show_store(&w.f1.store_dump()));
        }
        ctx.violation("event-log", &class, msg, cj());
    }
    let _: Option<(Rc<Cell<u8>>, Model)> = None;
}
