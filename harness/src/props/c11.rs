//! C11 — change events describe exactly what changed.
use super::conv::show_model;
use crate::dump::*;
use crate::engine::*;
use crate::model::*;
use crate::ops::*;
use crate::world::*;
use serde::{Deserialize, Serialize};
use serde_json::{json, Value};
use std::collections::{BTreeMap, HashMap};
use std::sync::{Arc, Mutex};
use yrs::types::{Change, Delta, EntryChange, Event, PathSegment};
use yrs::updates::decoder::Decode;
use yrs::{DeepObservable, Observable, OffsetKind, Out, Subscription, Transact, TransactionMut, Update};

pub fn def() -> PropDef {
    PropDef {
        id: "C11",
        title: "change events are exact edit scripts",
        shards: |t| t.pick(32, 128),
        run,
        replay,
        rule: "an observed document D (observe on every root, observe_deep on the array/map/xml roots; Bytes and Utf16 offsets) and a remote author E; ALL sequences of actions {local transaction with every mix of 1..3 operations (incl. insert-then-delete of the same element), op on E, E syncs from D, deliver E's i-th update in any order} with <= L operations in total, state-matched on internal dumps + shadows; inside each callback delta()/keys()/path() are evaluated and values converted; a shadow copy per observer, updated ONLY by applying the reported edit scripts (deep events applied at their paths, parents first), must equal the visible content after every transaction, local or remote; an observer fires at most once per transaction and not at all for a type whose content did not change. distinct_nontrivial = distinct (transaction, resulting content) pairs with a non-empty script",
        assumptions: &[
            "direct observers are compared shallowly (nested containers by kind), deep observers fully",
            "text delta lengths are in the document's offset unit",
        ],
    }
}

#[derive(Clone, Debug, PartialEq, Eq, Hash, Serialize, Deserialize)]
pub enum A11 {
    Txn(Vec<Op>),
    E(Op),
    SyncE,
    Deliver(usize),
}

#[derive(Clone, Debug, Serialize, Deserialize)]
pub struct Cfg11 {
    pub fam: Fam,
    pub level: u8,
    pub gc: bool,
    pub utf16: bool,
    pub max_txn: usize,
    /// restrict the alphabet to operations below this root
    #[serde(default)]
    pub only_root: Option<char>,
}

#[derive(Clone, Debug)]
enum DeltaS {
    Ins(Vec<Unit>),
    Del(u32),
    Retain(u32, Option<AttrsV>),
}
#[derive(Clone, Debug)]
enum ChangeS {
    Added(Vec<Node>),
    Removed(u32),
    Retain(u32),
}
#[derive(Clone, Debug)]
enum KeyCh {
    Inserted(Node),
    Updated(Node, Node),
    Removed(Node),
}
#[derive(Clone, Debug)]
enum Script {
    Text(Vec<DeltaS>, Vec<(String, KeyCh)>),
    Seq(Vec<ChangeS>, Vec<(String, KeyCh)>),
    Keys(Vec<(String, KeyCh)>),
}
#[derive(Clone, Debug)]
struct Fired {
    observer: String,
    path: Vec<Seg>,
    script: Script,
}

type Log = Arc<Mutex<Vec<Fired>>>;

fn conv_delta(txn: &TransactionMut, d: &[Delta]) -> Vec<DeltaS> {
    d.iter()
        .map(|x| match x {
            Delta::Inserted(v, a) => {
                let attrs = a.as_ref().map(|a| attrs_v(a)).unwrap_or_default();
                let units = match v {
                    Out::Any(yrs::Any::String(s)) => s.chars().map(|c| Unit { c: UnitC::Ch(c), attrs: attrs.clone() }).collect(),
                    Out::Any(o) => vec![Unit { c: UnitC::Embed(AnyV::from_any(o)), attrs }],
                    other => vec![Unit { c: UnitC::Node(Box::new(dump_out(txn, other))), attrs }],
                };
                DeltaS::Ins(units)
            }
            Delta::Deleted(n) => DeltaS::Del(*n),
            Delta::Retain(n, a) => DeltaS::Retain(*n, a.as_ref().map(|a| attrs_v(a))),
        })
        .collect()
}
fn conv_changes(txn: &TransactionMut, d: &[Change]) -> Vec<ChangeS> {
    d.iter()
        .map(|x| match x {
            Change::Added(v) => ChangeS::Added(v.iter().map(|o| dump_out(txn, o)).collect()),
            Change::Removed(n) => ChangeS::Removed(*n),
            Change::Retain(n) => ChangeS::Retain(*n),
        })
        .collect()
}
fn conv_keys(txn: &TransactionMut, k: &HashMap<Arc<str>, EntryChange>) -> Vec<(String, KeyCh)> {
    let mut v: Vec<(String, KeyCh)> = k
        .iter()
        .map(|(k, c)| {
            (
                k.to_string(),
                match c {
                    EntryChange::Inserted(n) => KeyCh::Inserted(dump_out(txn, n)),
                    EntryChange::Updated(o, n) => KeyCh::Updated(dump_out(txn, o), dump_out(txn, n)),
                    EntryChange::Removed(o) => KeyCh::Removed(dump_out(txn, o)),
                },
            )
        })
        .collect();
    v.sort_by(|a, b| a.0.cmp(&b.0));
    v
}
fn conv_path(p: &yrs::types::Path) -> Vec<Seg> {
    p.iter()
        .map(|s| match s {
            PathSegment::Key(k) => Seg::K(k.to_string()),
            PathSegment::Index(i) => Seg::I(*i),
        })
        .collect()
}
fn conv_event(txn: &TransactionMut, e: &Event) -> (Vec<Seg>, Script) {
    match e {
        Event::Text(e) => (conv_path(&e.path()), Script::Text(conv_delta(txn, e.delta(txn)), Vec::new())),
        Event::Array(e) => (conv_path(&e.path()), Script::Seq(conv_changes(txn, e.delta(txn)), Vec::new())),
        Event::Map(e) => (conv_path(&e.path()), Script::Keys(conv_keys(txn, e.keys(txn)))),
        Event::XmlFragment(e) => (conv_path(&e.path()), Script::Seq(conv_changes(txn, e.delta(txn)), conv_keys(txn, e.keys(txn)))),
        Event::XmlText(e) => (conv_path(&e.path()), Script::Text(conv_delta(txn, e.delta(txn)), conv_keys(txn, e.keys(txn)))),
        Event::Weak(_) => (Vec::new(), Script::Keys(Vec::new())),
    }
}

struct W11 {
    d: Replica,
    e: Replica,
    log: Log,
    _subs: Vec<Subscription>,
    /// observer name -> shadow
    shadows: BTreeMap<String, Node>,
    e_updates: Vec<Vec<u8>>,
    d_events: Vec<Vec<u8>>,
    e_known_d: usize,
    nops: usize,
    kind: OffsetKind,
    steps: usize,
    soft: Vec<(usize, String, String)>,
}

/// nested containers reduced to their kind (what a non-deep observer can know)
fn shallow(n: &Node) -> Node {
    fn mark(n: &Node) -> Node {
        match n {
            Node::Any(a) => Node::Any(a.clone()),
            Node::Text(_) => Node::Text(vec![]),
            Node::Array(_) => Node::Array(vec![]),
            Node::Map(_) => Node::Map(BTreeMap::new()),
            Node::XmlFragment(_) => Node::XmlFragment(vec![]),
            Node::XmlElement { tag, .. } => Node::XmlElement { tag: tag.clone(), attrs: BTreeMap::new(), children: vec![] },
            Node::XmlText { .. } => Node::XmlText { attrs: BTreeMap::new(), units: vec![] },
            other => other.clone(),
        }
    }
    match n {
        Node::Text(u) => Node::Text(
            u.iter()
                .map(|x| Unit {
                    c: match &x.c {
                        UnitC::Node(n) => UnitC::Node(Box::new(mark(n))),
                        o => o.clone(),
                    },
                    attrs: x.attrs.clone(),
                })
                .collect(),
        ),
        Node::Array(v) => Node::Array(v.iter().map(mark).collect()),
        Node::Map(m) => Node::Map(m.iter().map(|(k, v)| (k.clone(), mark(v))).collect()),
        Node::XmlFragment(v) => Node::XmlFragment(v.iter().map(mark).collect()),
        other => other.clone(),
    }
}

fn apply_keys(attrs: &mut BTreeMap<String, Node>, keys: &[(String, KeyCh)], shallow_cmp: bool) -> Result<(), String> {
    // old values are read inside the callback, i.e. after the transaction: a removed nested type
    // reads as empty by then, so old values are always compared by kind only for containers
    let _ = shallow_cmp;
    let norm = |n: &Node| shallow(&Node::Array(vec![n.clone()]));
    for (k, c) in keys {
        match c {
            KeyCh::Inserted(n) => {
                if attrs.contains_key(k) {
                    return Err(format!("key {:?} reported Inserted but the observer already saw a value", k));
                }
                attrs.insert(k.clone(), n.clone());
            }
            KeyCh::Updated(o, n) => {
                match attrs.get(k) {
                    Some(prev) if norm(prev) == norm(o) => {}
                    prev => return Err(format!("key {:?} reported Updated(old={}) but the observer saw {:?} before", k, o.show(), prev.map(|p| p.show()))),
                }
                attrs.insert(k.clone(), n.clone());
            }
            KeyCh::Removed(o) => {
                match attrs.get(k) {
                    Some(prev) if norm(prev) == norm(o) => {}
                    prev => return Err(format!("key {:?} reported Removed(old={}) but the observer saw {:?} before", k, o.show(), prev.map(|p| p.show()))),
                }
                attrs.remove(k);
            }
        }
    }
    Ok(())
}

fn apply_text(units: &mut Vec<Unit>, delta: &[DeltaS], kind: OffsetKind) -> Result<(), String> {
    let mut cur = 0usize;
    let take = |units: &Vec<Unit>, cur: usize, n: u32| -> Result<usize, String> {
        let mut acc = 0u32;
        let mut k = cur;
        while acc < n {
            if k >= units.len() {
                return Err(format!("script runs past the end of the text ({} units short)", n - acc));
            }
            acc += units[k].len(kind);
            k += 1;
        }
        if acc != n {
            return Err("script length does not fall on a unit boundary".into());
        }
        Ok(k)
    };
    for d in delta {
        match d {
            DeltaS::Ins(u) => {
                let l = u.len();
                units.splice(cur..cur, u.iter().cloned());
                cur += l;
            }
            DeltaS::Del(n) => {
                let end = take(units, cur, *n)?;
                units.drain(cur..end);
            }
            DeltaS::Retain(n, attrs) => {
                let end = take(units, cur, *n)?;
                if let Some(a) = attrs {
                    for u in &mut units[cur..end] {
                        for (k, v) in a {
                            if *v == AnyV::Null {
                                u.attrs.remove(k);
                            } else {
                                u.attrs.insert(k.clone(), v.clone());
                            }
                        }
                    }
                }
                cur = end;
            }
        }
    }
    Ok(())
}

fn apply_seq(v: &mut Vec<Node>, changes: &[ChangeS]) -> Result<(), String> {
    let mut cur = 0usize;
    for c in changes {
        match c {
            ChangeS::Added(n) => {
                let l = n.len();
                v.splice(cur..cur, n.iter().cloned());
                cur += l;
            }
            ChangeS::Removed(n) => {
                if cur + *n as usize > v.len() {
                    return Err("script removes past the end".into());
                }
                v.drain(cur..cur + *n as usize);
            }
            ChangeS::Retain(n) => {
                cur += *n as usize;
                if cur > v.len() {
                    return Err("script retains past the end".into());
                }
            }
        }
    }
    Ok(())
}

fn node_at<'a>(root: &'a mut Node, path: &[Seg]) -> Option<&'a mut Node> {
    let mut cur = root;
    for s in path {
        cur = match (s, cur) {
            (Seg::I(i), Node::Array(v)) => v.get_mut(*i as usize)?,
            (Seg::I(i), Node::XmlFragment(v)) => v.get_mut(*i as usize)?,
            (Seg::I(i), Node::XmlElement { children, .. }) => children.get_mut(*i as usize)?,
            (Seg::K(k), Node::Map(m)) => m.get_mut(k)?,
            _ => return None,
        };
    }
    Some(cur)
}

fn apply_script(target: &mut Node, s: &Script, kind: OffsetKind, shallow_cmp: bool) -> Result<(), String> {
    match (s, target) {
        (Script::Text(d, _), Node::Text(u)) => apply_text(u, d, kind),
        (Script::Text(d, keys), Node::XmlText { units, attrs }) => {
            apply_text(units, d, kind)?;
            apply_keys(attrs, keys, shallow_cmp)
        }
        (Script::Seq(c, _), Node::Array(v)) => apply_seq(v, c),
        (Script::Seq(c, _), Node::XmlFragment(v)) => apply_seq(v, c),
        (Script::Seq(c, keys), Node::XmlElement { children, attrs, .. }) => {
            apply_seq(children, c)?;
            apply_keys(attrs, keys, shallow_cmp)
        }
        (Script::Keys(k), Node::Map(m)) => apply_keys(m, k, shallow_cmp),
        (s, t) => Err(format!("event kind {:?} does not fit the observed type {}", std::mem::discriminant(s), t.show())),
    }
}

fn script_empty(s: &Script) -> bool {
    match s {
        Script::Text(d, k) => d.is_empty() && k.is_empty(),
        Script::Seq(d, k) => d.is_empty() && k.is_empty(),
        Script::Keys(k) => k.is_empty(),
    }
}

impl W11 {
    fn new(cfg: &Cfg11) -> W11 {
        let d = Replica::new(RCfg { client: 5, gc: cfg.gc, utf16: cfg.utf16, cleanup: true });
        let e = Replica::new(RCfg { client: 3, gc: true, utf16: cfg.utf16, cleanup: false });
        let log: Log = Arc::new(Mutex::new(Vec::new()));
        let mut subs = Vec::new();
        let mut shadows = BTreeMap::new();
        {
            let l = log.clone();
            subs.push(d.roots.t.observe(move |txn, e| {
                l.lock().unwrap().push(Fired { observer: "t".into(), path: conv_path(&e.path()), script: Script::Text(conv_delta(txn, e.delta(txn)), vec![]) });
            }));
            shadows.insert("t".to_string(), Node::Text(vec![]));
            let l = log.clone();
            subs.push(d.roots.a.observe(move |txn, e| {
                l.lock().unwrap().push(Fired { observer: "a".into(), path: conv_path(&e.path()), script: Script::Seq(conv_changes(txn, e.delta(txn)), vec![]) });
            }));
            shadows.insert("a".to_string(), Node::Array(vec![]));
            let l = log.clone();
            subs.push(d.roots.m.observe(move |txn, e| {
                l.lock().unwrap().push(Fired { observer: "m".into(), path: conv_path(&e.path()), script: Script::Keys(conv_keys(txn, e.keys(txn))) });
            }));
            shadows.insert("m".to_string(), Node::Map(BTreeMap::new()));
            let l = log.clone();
            subs.push(d.roots.x.observe(move |txn, e| {
                l.lock().unwrap().push(Fired { observer: "x".into(), path: conv_path(&e.path()), script: Script::Seq(conv_changes(txn, e.delta(txn)), conv_keys(txn, e.keys(txn))) });
            }));
            shadows.insert("x".to_string(), Node::XmlFragment(vec![]));
        }
        for (name, which) in [("deep-a", 'a'), ("deep-m", 'm'), ("deep-x", 'x')] {
            let l = log.clone();
            let nm = name.to_string();
            let f = move |txn: &TransactionMut, events: &yrs::types::Events| {
                for e in events.iter() {
                    let (path, script) = conv_event(txn, e);
                    l.lock().unwrap().push(Fired { observer: nm.clone(), path, script });
                }
            };
            subs.push(match which {
                'a' => d.roots.a.observe_deep(f),
                'm' => d.roots.m.observe_deep(f),
                _ => d.roots.x.observe_deep(f),
            });
            shadows.insert(
                name.to_string(),
                match which {
                    'a' => Node::Array(vec![]),
                    'm' => Node::Map(BTreeMap::new()),
                    _ => Node::XmlFragment(vec![]),
                },
            );
        }
        W11 { d, e, log, _subs: subs, shadows, e_updates: Vec::new(), d_events: Vec::new(), e_known_d: 0, nops: 0, kind: if cfg.utf16 { OffsetKind::Utf16 } else { OffsetKind::Bytes }, steps: 0, soft: Vec::new() }
    }

    /// judge the events of the D transaction that just committed
    fn judge(&mut self, what: &str, before: &Model, insert_then_delete: bool) -> Result<(), (String, String)> {
        let fired: Vec<Fired> = self.log.lock().unwrap().drain(..).collect();
        let after = self.d.dump();
        // at most once per (direct) observer; deep observers: at most one event per target path
        let mut seen: HashMap<(String, Vec<Seg>), usize> = HashMap::new();
        for f in &fired {
            *seen.entry((f.observer.clone(), f.path.clone())).or_insert(0) += 1;
        }
        if let Some(((o, p), n)) = seen.iter().find(|(_, n)| **n > 1) {
            return Err(("observer-fired-twice".into(), format!("{}: observer {} received {} events for path {:?} in one transaction", what, o, n, p)));
        }
        // deep: parents first
        let mut fired = fired;
        fired.sort_by_key(|f| f.path.len());
        for f in &fired {
            let deep = f.observer.starts_with("deep-");
            let root_char = f.observer.chars().last().unwrap();
            // a direct observer only knows the type's own elements, not what is inside them
            let unchanged = if deep {
                before.get(&root_char) == after.get(&root_char)
            } else {
                before.get(&root_char).map(shallow) == after.get(&root_char).map(shallow)
            };
            if script_empty(&f.script) {
                // `insert_then_delete` here means: the transaction created and/or deleted items
                // (the internal state changed) although nothing visible changed in this type
                let class = if insert_then_delete && unchanged {
                    "empty-script-event-for-transaction-without-net-visible-effect"
                } else if unchanged {
                    "event-for-unchanged-type"
                } else {
                    "empty-script-for-changed-type"
                };
                if class == "empty-script-event-for-transaction-without-net-visible-effect" {
                    // recorded, but exploration continues behind it (an empty script leaves the
                    // shadow untouched)
                    let m = format!("{}: observer {} fired with an empty script at path {:?}; content before {} after {}", what, f.observer, f.path, show_model(before), show_model(&after));
                    self.soft.push((self.steps, class.to_string(), m));
                } else if class != "empty-script-for-changed-type" || !deep {
                    return Err((class.into(), format!("{}: observer {} fired with an empty script at path {:?}; content before {} after {}", what, f.observer, f.path, show_model(before), show_model(&after))));
                }
            }
            let sh = self.shadows.get_mut(&f.observer).unwrap();
            let target = if deep { node_at(sh, &f.path) } else { Some(sh) };
            let Some(target) = target else {
                return Err(("path-does-not-resolve".into(), format!("{}: observer {}: path {:?} does not lead to a type in what the observer has seen ({})", what, f.observer, f.path, self.shadows[&f.observer].show())));
            };
            if let Err(e) = apply_script(target, &f.script, self.kind, !deep) {
                return Err(("script-not-applicable".into(), format!("{}: observer {} path {:?}: {} (script {:?})", what, f.observer, f.path, e, f.script)));
            }
        }
        for (name, sh) in &self.shadows {
            let root_char = name.chars().last().unwrap();
            let real = after.get(&root_char).cloned().unwrap_or(Node::Undefined);
            let deep = name.starts_with("deep-");
            let (want, got) = if deep { (real.clone(), sh.clone()) } else { (shallow(&real), shallow(sh)) };
            if want != got {
                let any_event = fired.iter().any(|f| &f.observer == name);
                return Err((
                    if any_event { format!("shadow-differs:{}", if deep { "deep" } else { "direct" }) } else { format!("no-event-for-change:{}", if deep { "deep" } else { "direct" }) },
                    format!(
                        "{}: observer {} reconstructs {} from the events but the type reads {} (events: {:?})",
                        what,
                        name,
                        got.show(),
                        want.show(),
                        fired.iter().filter(|f| &f.observer == name).map(|f| (&f.path, &f.script)).collect::<Vec<_>>()
                    ),
                ));
            }
        }
        Ok(())
    }

    fn step(&mut self, a: &A11) -> Result<(), (String, String)> {
        self.steps += 1;
        match a {
            A11::Txn(ops) => {
                let before = self.d.dump();
                let store_before = self.d.store_hash();
                self.d.capture.borrow_mut().clear();
                {
                    let mut txn = self.d.doc.transact_mut();
                    for op in ops {
                        self.nops += 1;
                        apply_real(&self.d.roots, &mut txn, self.d.cfg.kind(), op).map_err(|e| ("harness".to_string(), e))?;
                    }
                }
                let evs: Vec<(bool, Vec<u8>)> = self.d.capture.borrow_mut().drain(..).collect();
                if let Some((_, b)) = evs.iter().find(|e| !e.0) {
                    self.d_events.push(b.clone());
                }
                let itd = self.d.store_hash() != store_before;
                self.judge(&format!("local transaction {:?}", ops), &before, itd)
            }
            A11::E(op) => {
                self.nops += 1;
                self.e.capture.borrow_mut().clear();
                {
                    let mut txn = self.e.doc.transact_mut();
                    apply_real(&self.e.roots, &mut txn, self.e.cfg.kind(), op).map_err(|e| ("harness".to_string(), e))?;
                }
                let evs: Vec<(bool, Vec<u8>)> = self.e.capture.borrow_mut().drain(..).collect();
                if let Some((_, b)) = evs.iter().find(|e| !e.0) {
                    self.e_updates.push(b.clone());
                }
                Ok(())
            }
            A11::SyncE => {
                for i in self.e_known_d..self.d_events.len() {
                    self.e.apply(&self.d_events[i], false).map_err(|e| ("harness".to_string(), e))?;
                }
                self.e_known_d = self.d_events.len();
                Ok(())
            }
            A11::Deliver(i) => {
                let before = self.d.dump();
                let store_before = self.d.store_hash();
                let bytes = self.e_updates[*i].clone();
                {
                    let u = Update::decode_v1(&bytes).map_err(|e| ("harness".to_string(), e.to_string()))?;
                    let mut txn = self.d.doc.transact_mut_with("remote");
                    txn.apply_update(u).map_err(|e| ("remote-apply-fails".to_string(), e.to_string()))?;
                }
                let evs: Vec<(bool, Vec<u8>)> = self.d.capture.borrow_mut().drain(..).collect();
                if let Some((_, b)) = evs.iter().find(|e| !e.0) {
                    self.d_events.push(b.clone());
                }
                let changed = self.d.store_hash() != store_before;
                self.judge(&format!("remote update {}", i), &before, changed)
            }
        }
    }

    fn key(&self) -> u64 {
        hash_of(&(self.d.store_hash(), self.e.store_hash(), &self.shadows, self.e_updates.len(), self.e_known_d))
    }
}

fn txn_lists(fam: Fam, level: u8, st: &Model, k: usize, max: usize) -> Vec<Vec<Op>> {
    // all sequences of 1..=max operations, enabled-ness tracked through the reference model
    let mut out: Vec<Vec<Op>> = Vec::new();
    fn rec(fam: Fam, level: u8, st: &Model, k: usize, max: usize, cur: &mut Vec<Op>, out: &mut Vec<Vec<Op>>) {
        if cur.len() >= max {
            return;
        }
        for op in gen_ops(fam, st, k + cur.len(), level) {
            let mut m = st.clone();
            if apply_model(&mut m, &op).is_err() {
                continue;
            }
            cur.push(op);
            out.push(cur.clone());
            rec(fam, level, &m, k, max, cur, out);
            cur.pop();
        }
    }
    rec(fam, level, st, k, max, &mut Vec::new(), &mut out);
    out
}

fn bounds(tier: Tier) -> Vec<(Cfg11, usize)> {
    let c = |fam, level, gc, utf16, max_txn| Cfg11 { fam, level, gc, utf16, max_txn, only_root: None };
    let cr = |fam, gc, max_txn, root| Cfg11 { fam, level: 0, gc, utf16: false, max_txn, only_root: Some(root) };
    match tier {
        Tier::Quick => vec![
            (c(Fam::Txt, 0, true, false, 3), 4),
            (c(Fam::Rtx, 0, true, false, 2), 3),
            // concurrent formatting of overlapping ranges, one key with three values, local and remote
            (c(Fam::Rtx, 3, true, false, 1), 3),
            // shared types embedded in a text, deletion ranges over them
            (c(Fam::Rtx, 4, true, false, 2), 3),
            (c(Fam::Arr, 0, true, false, 3), 4),
            (c(Fam::Map, 1, true, false, 3), 4),
            (c(Fam::Nest, 0, true, false, 2), 3),
            (cr(Fam::Nest, true, 2, 'a'), 4),
            (c(Fam::Xml, 0, true, false, 2), 3),
            (c(Fam::Uni, 0, false, true, 2), 3),
        ],
        Tier::Thorough => vec![
            (c(Fam::Txt, 1, true, false, 3), 4),
            (c(Fam::Txt, 0, false, false, 3), 5),
            (c(Fam::Rtx, 0, true, false, 3), 4),
            (c(Fam::Rtx, 1, true, false, 2), 3),
            (c(Fam::Rtx, 3, true, false, 2), 4),
            (c(Fam::Rtx, 4, true, false, 2), 4),
            (c(Fam::Arr, 1, true, false, 3), 4),
            (c(Fam::Arr, 0, true, false, 3), 5),
            (c(Fam::Map, 1, true, false, 3), 5),
            (c(Fam::Nest, 0, true, false, 3), 4),
            (cr(Fam::Nest, true, 2, 'a'), 4),
            (cr(Fam::Nest, false, 1, 'a'), 4),
            (c(Fam::Xml, 0, true, false, 3), 4),
            (c(Fam::Uni, 0, false, true, 3), 4),
            (c(Fam::Uni, 0, true, false, 2), 3),
        ],
    }
}

fn build(cfg: &Cfg11, trace: &[A11]) -> (W11, Option<(String, String)>) {
    let mut w = W11::new(cfg);
    for a in trace {
        if let Err(e) = w.step(a) {
            return (w, Some(e));
        }
    }
    (w, None)
}

fn ops_in(trace: &[A11]) -> usize {
    trace
        .iter()
        .map(|a| match a {
            A11::Txn(o) => o.len(),
            A11::E(_) => 1,
            _ => 0,
        })
        .sum()
}

fn dfs(ctx: &mut Ctx, cfg: &Cfg11, max: usize, trace: &mut Vec<A11>, visited: &mut HashMap<u64, usize>, idx: &mut u64) {
    if ctx.out_of_time() {
        return;
    }
    let case = json!({"cfg": cfg, "trace": trace});
    let cj = || case.clone();
    let res = ctx.exec(&cj, |ctx| {
        ctx.count("transitions", trace.len() as u64);
        build(cfg, trace)
    });
    let Some((w, verdict)) = res else { return };
    if let Some((class, msg)) = verdict {
        if class == "harness" {
            ctx.machinery_error(format!("{} on {}", msg, case));
        } else {
            ctx.violation("events", &class, msg, cj());
        }
        return;
    }
    for (step, class, msg) in &w.soft {
        if *step == trace.len() {
            ctx.violation("events", class, msg.clone(), cj());
        }
    }
    ctx.sample(cj);
    let key = w.key();
    let used = ops_in(trace);
    let remaining = max - used;
    match visited.get(&key) {
        Some(&r) if r >= remaining => {
            ctx.count("pruned_revisits", 1);
            return;
        }
        _ => {}
    }
    visited.insert(key, remaining);
    ctx.state(key);
    if matches!(trace.last(), Some(A11::Txn(_)) | Some(A11::Deliver(_))) {
        ctx.outcome(hash_of(&(trace.last(), w.d.dump())));
    }
    let mut acts: Vec<A11> = Vec::new();
    if remaining > 0 {
        let ok = |op: &Op| cfg.only_root.map(|r| op.tgt().root == r).unwrap_or(true);
        for ops in txn_lists(cfg.fam, cfg.level, &w.d.dump(), w.nops, cfg.max_txn.min(remaining)) {
            if ops.iter().all(ok) {
                acts.push(A11::Txn(ops));
            }
        }
        // the remote author uses the simplest alphabet, except in the formatting-focused configuration
        for op in gen_ops(cfg.fam, &w.e.dump(), w.nops, if cfg.level == 3 { 3 } else { 0 }) {
            if ok(&op) {
                acts.push(A11::E(op));
            }
        }
    }
    if w.e_known_d < w.d_events.len() && remaining > 0 {
        acts.push(A11::SyncE);
    }
    let ndeliv = trace.iter().filter(|a| matches!(a, A11::Deliver(_))).count();
    if ndeliv < w.e_updates.len() + 1 {
        for i in 0..w.e_updates.len() {
            acts.push(A11::Deliver(i));
        }
    }
    drop(w);
    for a in acts {
        if trace.len() == 1 {
            *idx += 1;
            if !ctx.mine(*idx) {
                continue;
            }
        }
        trace.push(a);
        dfs(ctx, cfg, max, trace, visited, idx);
        trace.pop();
    }
}

fn run(ctx: &mut Ctx) {
    let mut idx = 0u64;
    for (cfg, max) in bounds(ctx.tier) {
        let mut visited = HashMap::new();
        dfs(ctx, &cfg, max, &mut Vec::new(), &mut visited, &mut idx);
    }
}

fn replay(ctx: &mut Ctx, case: &Value) {
    let cfg: Cfg11 = match serde_json::from_value(case["cfg"].clone()) {
        Ok(c) => c,
        Err(e) => return ctx.machinery_error(format!("bad case: {}", e)),
    };
    let trace: Vec<A11> = match serde_json::from_value(case["trace"].clone()) {
        Ok(c) => c,
        Err(e) => return ctx.machinery_error(format!("bad case: {}", e)),
    };
    let cj = || case.clone();
    if let Some((w, verdict)) = ctx.exec(&cj, |_| build(&cfg, &trace)) {
        for (_, class, msg) in &w.soft {
            ctx.violation("events", class, msg.clone(), cj());
        }
        if let Some((class, msg)) = verdict {
            ctx.violation("events", &class, msg, cj());
        }
    }
}
