#![allow(clippy::all)]
#![allow(dead_code)]
mod alloc;
mod dump;
mod engine;
mod model;
mod ops;
mod props;
mod reads;
mod seq;
mod world;
/// the C API, compiled from the repository's own source into this binary (real extern "C" symbols)
#[allow(warnings, clippy::all)]
#[path = "/repo/yffi/src/lib.rs"]
pub mod yffi;

use engine::*;

#[global_allocator]
static GLOBAL: alloc::Counting = alloc::Counting;
use std::path::PathBuf;

fn usage() -> i32 {
    eprintln!("usage: yv <PROP> quick|thorough | yv replay <file> | yv list");
    2
}

fn main() {
    let args: Vec<String> = std::env::args().collect();
    let props = props::all();
    let code = match args.get(1).map(|s| s.as_str()) {
        Some("list") => {
            for p in &props {
                println!("{} {}", p.id, p.title);
            }
            0
        }
        Some("worker") => {
            // yv worker <prop> <tier> <shard> <nshards> <dir>
            let prop = props.iter().find(|p| p.id == args[2]).expect("prop");
            let tier = Tier::parse(&args[3]).expect("tier");
            let shard: usize = args[4].parse().unwrap();
            let nshards: usize = args[5].parse().unwrap();
            worker_main(prop, tier, shard, nshards, &PathBuf::from(&args[6]))
        }
        Some("replay") => match args.get(2) {
            Some(f) => replay_supervise(f),
            None => usage(),
        },
        Some("replay-worker") => replay_worker(&props, &args[2]),
        Some(id) => match (props.iter().find(|p| p.id == id), args.get(2).and_then(|t| Tier::parse(t))) {
            (Some(p), Some(t)) => supervise(p, t),
            _ => usage(),
        },
        None => usage(),
    };
    std::process::exit(code);
}
