//! Worlds: R real replicas, the pool of updates they emitted, happened-before tracked by
//! the harness; history enumeration; subset-lattice delivery.
use crate::engine::*;
use crate::model::*;
use crate::ops::*;
use serde::{Deserialize, Serialize};
use std::cell::RefCell;
use std::collections::{BTreeMap, BTreeSet, HashMap, VecDeque};
use std::rc::Rc;
use yrs::updates::decoder::Decode;
use yrs::updates::encoder::Encode;
use yrs::{
    ClientID, Doc, OffsetKind, Options, ReadTxn, StateVector, Subscription, Transact, Update,
};

#[derive(Clone, Copy, Debug, PartialEq, Eq, Hash, Serialize, Deserialize)]
pub struct RCfg {
    pub client: u64,
    pub gc: bool,
    pub utf16: bool,
    pub cleanup: bool,
}

impl RCfg {
    pub fn kind(&self) -> OffsetKind {
        if self.utf16 {
            OffsetKind::Utf16
        } else {
            OffsetKind::Bytes
        }
    }
    pub fn make_doc(&self) -> Doc {
        let mut o = Options::with_client_id(ClientID::new(self.client));
        o.guid = format!("doc-{}", self.client).into();
        o.offset_kind = self.kind();
        o.skip_gc = !self.gc;
        o.cleanup_formatting = self.cleanup;
        Doc::with_options(o)
    }
}

#[derive(Clone, Debug)]
pub struct Upd {
    pub author: usize,
    pub v1: Vec<u8>,
    pub v2: Vec<u8>,
    /// indices of pool updates that happened before this one
    pub preds: BTreeSet<usize>,
    /// the local operation that produced it (None for clean-up events of remote applies)
    pub op: Option<Op>,
    /// for MClear: keys visible to the author before the call
    pub cleared: Vec<String>,
}

type Capture = Rc<RefCell<Vec<(bool, Vec<u8>)>>>;

pub struct Replica {
    pub doc: Doc,
    pub roots: Roots,
    pub cfg: RCfg,
    /// indices of pool updates delivered to / authored by this replica
    pub known: BTreeSet<usize>,
    pub capture: Capture,
    _subs: Vec<Subscription>,
}

impl Replica {
    pub fn new(cfg: RCfg) -> Replica {
        let doc = cfg.make_doc();
        let roots = Roots::new(&doc);
        let capture: Capture = Rc::new(RefCell::new(Vec::new()));
        let c1 = capture.clone();
        let c2 = capture.clone();
        let s1 = doc
            .observe_update_v1(move |_, e| c1.borrow_mut().push((false, e.update.clone())))
            .unwrap();
        let s2 = doc
            .observe_update_v2(move |_, e| c2.borrow_mut().push((true, e.update.clone())))
            .unwrap();
        Replica {
            doc,
            roots,
            cfg,
            known: BTreeSet::new(),
            capture,
            _subs: vec![s1, s2],
        }
    }
    pub fn dump(&self) -> Model {
        let txn = self.doc.transact();
        self.roots.dump_all(&txn)
    }
    pub fn sv(&self) -> BTreeMap<u64, u32> {
        let txn = self.doc.transact();
        sv_map(&txn.state_vector())
    }
    pub fn pending(&self) -> bool {
        let txn = self.doc.transact();
        txn.has_missing_updates()
    }
    pub fn store_dump(&self) -> yrs::verif::StoreDump {
        let txn = self.doc.transact();
        yrs::verif::store_dump(txn.store())
    }
    pub fn store_hash(&self) -> u64 {
        hash_of(&self.store_dump())
    }
    /// apply a v1/v2 payload; Err(description) on decode / integration error
    pub fn apply(&self, bytes: &[u8], v2: bool) -> Result<(), String> {
        let u = if v2 {
            Update::decode_v2(bytes)
        } else {
            Update::decode_v1(bytes)
        }
        .map_err(|e| format!("decode error: {}", e))?;
        let mut txn = self.doc.transact_mut();
        txn.apply_update(u).map_err(|e| format!("apply error: {}", e))?;
        drop(txn);
        self.capture.borrow_mut().clear();
        Ok(())
    }
    /// like `apply`, but returns the update events emitted by the applying transaction
    pub fn apply_capture(&self, bytes: &[u8], v2: bool) -> Result<Vec<(bool, Vec<u8>)>, String> {
        self.capture.borrow_mut().clear();
        let u = if v2 {
            Update::decode_v2(bytes)
        } else {
            Update::decode_v1(bytes)
        }
        .map_err(|e| format!("decode error: {}", e))?;
        let mut txn = self.doc.transact_mut();
        txn.apply_update(u).map_err(|e| format!("apply error: {}", e))?;
        drop(txn);
        let evs = self.capture.borrow_mut().drain(..).collect();
        Ok(evs)
    }
    pub fn full_state(&self, v2: bool) -> Vec<u8> {
        let txn = self.doc.transact();
        if v2 {
            txn.encode_state_as_update_v2(&StateVector::default())
        } else {
            txn.encode_state_as_update_v1(&StateVector::default())
        }
    }
}

pub fn sv_map(sv: &StateVector) -> BTreeMap<u64, u32> {
    sv.iter()
        .filter(|(_, c)| **c > 0)
        .map(|(c, k)| (c.get(), *k))
        .collect()
}

#[derive(Clone, Debug, PartialEq, Eq, Hash, Serialize, Deserialize)]
pub enum Act {
    Local { r: usize, op: Op },
    /// deliver to `dst` everything `src` knows and `dst` does not, in emission order
    Sync { dst: usize, src: usize },
    /// deliver the single pool update `i` to `dst`, whatever it depends on (creates gaps)
    Deliver { dst: usize, i: usize },
    /// forced garbage collection on replica `r` (`txn.gc(None)`)
    Gc { r: usize },
}

pub struct World {
    pub reps: Vec<Replica>,
    pub pool: Vec<Upd>,
    pub nops: usize,
}

impl World {
    pub fn new(cfgs: &[RCfg]) -> World {
        World {
            reps: cfgs.iter().map(|c| Replica::new(*c)).collect(),
            pool: Vec::new(),
            nops: 0,
        }
    }

    /// Executes an action. Err = harness-side inapplicability or a yrs error on a legal step.
    pub fn step(&mut self, a: &Act) -> Result<(), String> {
        match a {
            Act::Local { r, op } => {
                let rep = &self.reps[*r];
                rep.capture.borrow_mut().clear();
                let mut cleared = Vec::new();
                if let Op::MClear { t } = op {
                    if let Some(Node::Map(m)) = node_resolve(&rep.dump(), t) {
                        cleared = m.keys().cloned().collect();
                    }
                }
                {
                    let mut txn = rep.doc.transact_mut();
                    apply_real(&rep.roots, &mut txn, rep.cfg.kind(), op)?;
                }
                self.nops += 1;
                let evs: Vec<(bool, Vec<u8>)> = rep.capture.borrow_mut().drain(..).collect();
                let v1: Vec<&Vec<u8>> = evs.iter().filter(|e| !e.0).map(|e| &e.1).collect();
                let v2: Vec<&Vec<u8>> = evs.iter().filter(|e| e.0).map(|e| &e.1).collect();
                if v1.len() != v2.len() || v1.len() > 1 {
                    return Err(format!(
                        "local transaction emitted {} v1 and {} v2 update events",
                        v1.len(),
                        v2.len()
                    ));
                }
                if let (Some(a), Some(b)) = (v1.first(), v2.first()) {
                    let idx = self.pool.len();
                    self.pool.push(Upd {
                        author: *r,
                        v1: (*a).clone(),
                        v2: (*b).clone(),
                        preds: self.reps[*r].known.clone(),
                        op: Some(op.clone()),
                        cleared,
                    });
                    self.reps[*r].known.insert(idx);
                }
                Ok(())
            }
            Act::Gc { r } => {
                let rep = &self.reps[*r];
                {
                    let mut txn = rep.doc.transact_mut();
                    txn.gc(None);
                }
                rep.capture.borrow_mut().clear();
                Ok(())
            }
            Act::Sync { .. } | Act::Deliver { .. } => {
                let (dst, todo): (&usize, Vec<usize>) = match a {
                    Act::Sync { dst, src } => (
                        dst,
                        self.reps[*src]
                            .known
                            .difference(&self.reps[*dst].known)
                            .copied()
                            .collect(),
                    ),
                    Act::Deliver { dst, i } => (dst, vec![*i]),
                    _ => unreachable!(),
                };
                for i in todo {
                    if i >= self.pool.len() {
                        return Err(format!("no pool update {}", i));
                    }
                    let evs = self.reps[*dst].apply_capture(&self.pool[i].v1, false)?;
                    self.reps[*dst].known.insert(i);
                    // a replica may delete redundant formatting marks while applying: those
                    // deletions are its own operations and travel in the update event it emits
                    let v1 = evs.iter().find(|e| !e.0).map(|e| e.1.clone());
                    let v2 = evs.iter().find(|e| e.0).map(|e| e.1.clone());
                    if let (Some(v1), Some(v2)) = (v1, v2) {
                        if extra_deletes(&self.pool[i].v1, &v1, &self.reps[*dst])? {
                            let idx = self.pool.len();
                            self.pool.push(Upd {
                                author: *dst,
                                v1,
                                v2,
                                preds: self.reps[*dst].known.clone(),
                                op: None,
                                cleared: Vec::new(),
                            });
                            self.reps[*dst].known.insert(idx);
                        }
                    }
                }
                Ok(())
            }
        }
    }

    pub fn build(cfgs: &[RCfg], trace: &[Act]) -> Result<World, String> {
        let mut w = World::new(cfgs);
        for a in trace {
            w.step(a)?;
        }
        Ok(w)
    }

    /// canonical key of the pool: update bytes + happened-before relation
    pub fn pool_key(&self) -> u64 {
        let v: Vec<(&Vec<u8>, &BTreeSet<usize>, usize)> = self
            .pool
            .iter()
            .map(|u| (&u.v1, &u.preds, u.author))
            .collect();
        hash_of(&v)
    }

    /// canonical key of the whole world (internal layout of all replicas + pool + knowledge)
    pub fn key(&self) -> u64 {
        let dumps: Vec<yrs::verif::StoreDump> = self.reps.iter().map(|r| r.store_dump()).collect();
        let known: Vec<&BTreeSet<usize>> = self.reps.iter().map(|r| &r.known).collect();
        hash_of(&(dumps, known, self.pool_key()))
    }

    pub fn closed(&self, mask: u32) -> bool {
        closed(&self.pool, mask)
    }
}

pub fn closed(pool: &[Upd], mask: u32) -> bool {
    for (i, u) in pool.iter().enumerate() {
        if mask & (1 << i) != 0 {
            for p in &u.preds {
                if mask & (1 << p) == 0 {
                    return false;
                }
            }
        }
    }
    true
}

pub fn mask_of(known: &BTreeSet<usize>) -> u32 {
    known.iter().fold(0u32, |m, i| m | (1 << i))
}

// ---------------------------------------------------------------------------------------------
// history enumeration

#[derive(Clone, Debug)]
pub struct HistCfg {
    pub fam: Fam,
    pub level: u8,
    pub cfgs: Vec<RCfg>,
    /// number of local operations
    pub depth: usize,
    /// allow Sync actions
    pub syncs: bool,
    /// max number of out-of-order single-update deliveries (Act::Deliver) per history
    pub partial: usize,
}

/// Depth-first enumeration of all histories (Local/Sync sequences with `depth` local ops),
/// executed on the real code, state-matched on the canonical world key. `visit` is called
/// once per distinct world state with the trace that reached it first.
/// `shard_pred(prefix_index)` selects first-level branches.
pub fn explore_histories(
    ctx: &mut Ctx,
    h: &HistCfg,
    first_level: &mut dyn FnMut(u64) -> bool,
    visit: &mut dyn FnMut(&mut Ctx, &World, &[Act]),
) {
    let mut visited: HashMap<u64, usize> = HashMap::new();
    let mut trace: Vec<Act> = Vec::new();
    let mut idx = 0u64;
    dfs(ctx, h, &mut trace, 0, &mut visited, first_level, &mut idx, visit);
}

fn enabled(h: &HistCfg, w: &World, nlocal: usize, last_sync: bool, nparts: usize) -> Vec<Act> {
    let mut out = Vec::new();
    if nlocal >= h.depth {
        // final syncs are not needed: delivery is explored by the lattice; with partial
        // deliveries enabled the gapped end states matter, so allow them after the last op
        if nparts < h.partial {
            for dst in 0..w.reps.len() {
                for i in 0..w.pool.len() {
                    if !w.reps[dst].known.contains(&i) && !w.pool[i].preds.is_subset(&w.reps[dst].known) {
                        out.push(Act::Deliver { dst, i });
                    }
                }
            }
        }
        return out;
    }
    if h.syncs && !last_sync || h.syncs {
        for dst in 0..w.reps.len() {
            for src in 0..w.reps.len() {
                if dst != src && !w.reps[src].known.is_subset(&w.reps[dst].known) {
                    out.push(Act::Sync { dst, src });
                }
            }
        }
    }
    if nparts < h.partial {
        for dst in 0..w.reps.len() {
            for i in 0..w.pool.len() {
                if !w.reps[dst].known.contains(&i) {
                    // a Deliver that a Sync would also do first is redundant: require a gap
                    let closed = w.pool[i].preds.is_subset(&w.reps[dst].known);
                    if !closed {
                        out.push(Act::Deliver { dst, i });
                    }
                }
            }
        }
    }
    for r in 0..w.reps.len() {
        let st = w.reps[r].dump();
        for op in gen_ops(h.fam, &st, w.nops, h.level) {
            out.push(Act::Local { r, op });
        }
    }
    out
}

fn dfs(
    ctx: &mut Ctx,
    h: &HistCfg,
    trace: &mut Vec<Act>,
    nlocal: usize,
    visited: &mut HashMap<u64, usize>,
    first_level: &mut dyn FnMut(u64) -> bool,
    idx: &mut u64,
    visit: &mut dyn FnMut(&mut Ctx, &World, &[Act]),
) {
    if ctx.out_of_time() {
        return;
    }
    let case = {
        let t = trace.clone();
        let cfgs = h.cfgs.clone();
        move || serde_json::json!({"cfgs": cfgs, "trace": t})
    };
    let built = ctx.exec(&case, |ctx| {
        ctx.count("transitions", trace.len() as u64);
        World::build(&h.cfgs, trace)
    });
    let w = match built {
        Some(Ok(w)) => w,
        Some(Err(e)) => {
            ctx.violation(
                "history-executes",
                "history-step-error",
                format!("legal history step failed: {}", e),
                case(),
            );
            return;
        }
        None => return,
    };
    let key = w.key();
    let remaining = (h.depth - nlocal) * 8 + (h.partial - trace.iter().filter(|a| matches!(a, Act::Deliver { .. })).count().min(h.partial));
    match visited.get(&key) {
        Some(&r) if r >= remaining => {
            ctx.count("pruned_revisits", 1);
            return;
        }
        _ => {}
    }
    let first_time = !visited.contains_key(&key);
    visited.insert(key, remaining);
    ctx.state(key);
    if first_time {
        visit(ctx, &w, trace);
    }
    let last_sync = matches!(trace.last(), Some(Act::Sync { .. }));
    let nparts = trace.iter().filter(|a| matches!(a, Act::Deliver { .. })).count();
    let acts = enabled(h, &w, nlocal, last_sync, nparts);
    drop(w);
    for a in acts {
        if trace.len() == 1 {
            *idx += 1;
            if !first_level(*idx) {
                continue;
            }
        }
        let is_local = matches!(a, Act::Local { .. });
        // canonical order: never two Syncs with the same dst/src pair in a row (no-op), and
        // a Sync directly after a Sync only with a larger (dst,src) (they commute otherwise
        // only if independent; we keep all orders for dependent ones)
        trace.push(a);
        dfs(
            ctx,
            h,
            trace,
            nlocal + if is_local { 1 } else { 0 },
            visited,
            first_level,
            idx,
            visit,
        );
        trace.pop();
    }
}

// ---------------------------------------------------------------------------------------------
// subset-lattice delivery

#[derive(Clone, Debug, PartialEq, Eq, Hash, Serialize, Deserialize)]
pub enum Edge {
    /// deliver update i (v1 or v2 bytes)
    One { i: usize, v2: bool },
    /// deliver an already delivered update again
    Dup { i: usize },
    /// deliver merge_updates(i, j)
    Merged { i: usize, j: usize, v2: bool },
    /// deliver diff_updates(update i, receiver's current state vector)
    Diffed { i: usize, v2: bool },
    /// the receiver exports its full state; a fresh replica applies it and takes its place
    Relay { v2: bool },
}

impl Edge {
    pub fn is_deviation(&self) -> bool {
        !matches!(self, Edge::One { v2: false, .. })
    }
}

pub const K_DUP: u8 = 1;
pub const K_V2: u8 = 2;
pub const K_MERGE: u8 = 4;
pub const K_DIFF: u8 = 8;
pub const K_RELAY: u8 = 16;
pub const K_ALL: u8 = 31;

pub struct Receiver {
    pub world: World,
    pub r: usize,
    pub mask: u32,
}

impl Receiver {
    pub fn rep(&self) -> &Replica {
        &self.world.reps[self.r]
    }
    pub fn apply_edge(&mut self, pool: &[Upd], e: &Edge) -> Result<(), String> {
        match e {
            Edge::One { i, v2 } => {
                let u = &pool[*i];
                self.rep().apply(if *v2 { &u.v2 } else { &u.v1 }, *v2)?;
                self.mask |= 1 << i;
            }
            Edge::Dup { i } => {
                self.rep().apply(&pool[*i].v1, false)?;
            }
            Edge::Merged { i, j, v2 } => {
                let bytes = if *v2 {
                    yrs::merge_updates_v2([&pool[*i].v2, &pool[*j].v2])
                } else {
                    yrs::merge_updates_v1([&pool[*i].v1, &pool[*j].v1])
                }
                .map_err(|e| format!("merge_updates error: {}", e))?;
                self.rep().apply(&bytes, *v2)?;
                self.mask |= (1 << i) | (1 << j);
            }
            Edge::Diffed { i, v2 } => {
                let sv = {
                    let txn = self.rep().doc.transact();
                    if *v2 {
                        txn.state_vector().encode_v2()
                    } else {
                        txn.state_vector().encode_v1()
                    }
                };
                let bytes = if *v2 {
                    yrs::diff_updates_v2(&pool[*i].v2, &sv)
                } else {
                    yrs::diff_updates_v1(&pool[*i].v1, &sv)
                }
                .map_err(|e| format!("diff_updates error: {}", e))?;
                self.rep().apply(&bytes, *v2)?;
                self.mask |= 1 << i;
            }
            Edge::Relay { v2 } => {
                let bytes = self.rep().full_state(*v2);
                let mut cfg = self.rep().cfg;
                cfg.client += 1000;
                let fresh = Replica::new(cfg);
                fresh.apply(&bytes, *v2)?;
                self.world.reps.push(fresh);
                self.r = self.world.reps.len() - 1;
            }
        }
        Ok(())
    }
}

/// Points deleted by each pool update (index-aligned with the pool).
pub fn pool_delete_points(pool: &[Upd]) -> Vec<BTreeSet<(u64, u32)>> {
    pool.iter()
        .map(|u| match Update::decode_v1(&u.v1) {
            Ok(d) => yrs::verif::update_dump(&d).delete_set.iter().flat_map(|(c, s, e)| (*s..*e).map(move |k| (*c, k))).collect(),
            Err(_) => BTreeSet::new(),
        })
        .collect()
}

/// Has the receiver deleted sequence items on its own account - i.e. ids that no delivered update
/// deletes, that are no map entries (losers of a write are deleted by every replica alike) and whose
/// parent type is alive (children of a deleted type are marked with it)? With automatic formatting
/// clean-up on, a replica removes format marks that became redundant while it applied a remote
/// update: those are operations of its own, unknown to the pool, so the pool's reference results do
/// not describe this replica any more.
pub fn receiver_made_own_deletions(pool_ds: &[BTreeSet<(u64, u32)>], mask: u32, rep: &Replica) -> bool {
    if !rep.cfg.cleanup {
        return false;
    }
    let sd = rep.store_dump();
    let mut type_deleted: HashMap<(u64, u32), bool> = HashMap::new();
    for (_, list) in &sd.clients {
        for b in list {
            if b.branch.is_some() {
                type_deleted.insert(b.id, b.deleted);
            }
        }
    }
    for (_, list) in &sd.clients {
        for b in list {
            if b.kind != yrs::verif::BlockKind::Item || !b.deleted || b.parent_sub.is_some() {
                continue;
            }
            let parent_alive = match &b.parent {
                yrs::verif::ParentDump::Root(_) => true,
                yrs::verif::ParentDump::Nested(p) => !type_deleted.get(p).copied().unwrap_or(true),
                _ => false,
            };
            if !parent_alive {
                continue;
            }
            for k in b.id.1..b.id.1 + b.len {
                let p = (b.id.0, k);
                if !(0..pool_ds.len()).any(|i| mask & (1 << i) != 0 && pool_ds[i].contains(&p)) {
                    return true;
                }
            }
        }
    }
    false
}

pub struct LatticeNode<'a> {
    pub recv: &'a Receiver,
    pub path: &'a [Edge],
    pub mask: u32,
    pub full: bool,
    pub closed: bool,
}

/// Explore every delivery order of `pool` to the receiver produced by `base()`, as a graph over
/// (delivered set, internal state, deviations used). `visit` is called for every edge taken
/// (i.e. on every node reached, once per distinct incoming (state, edge)).
/// Returns false if exploration stopped on an error that was reported.
pub fn lattice(
    ctx: &mut Ctx,
    pool: &[Upd],
    base: &dyn Fn() -> Result<Receiver, String>,
    budget: usize,
    kinds: u8,
    case: &dyn Fn(&[Edge]) -> serde_json::Value,
    visit: &mut dyn FnMut(&mut Ctx, &LatticeNode),
) {
    let n = pool.len();
    let full_mask: u32 = if n >= 32 { u32::MAX } else { (1u32 << n) - 1 };
    let pool_ds = pool_delete_points(pool);
    let mut seen: HashMap<(u32, u64, usize), ()> = HashMap::new();
    let mut queue: VecDeque<(Vec<Edge>, usize)> = VecDeque::new();
    // initial node
    let r0 = match base() {
        Ok(r) => r,
        Err(e) => {
            ctx.machinery_error(format!("lattice base failed: {}", e));
            return;
        }
    };
    seen.insert((r0.mask, r0.rep().store_hash(), 0), ());
    {
        let node = LatticeNode {
            recv: &r0,
            path: &[],
            mask: r0.mask,
            full: r0.mask == full_mask,
            closed: closed(pool, r0.mask),
        };
        visit(ctx, &node);
    }
    let base_mask = r0.mask;
    drop(r0);
    queue.push_back((Vec::new(), 0));
    while let Some((path, used)) = queue.pop_front() {
        if ctx.out_of_time() {
            return;
        }
        // recompute the mask along the path
        let mut mask = base_mask;
        for e in &path {
            match e {
                Edge::One { i, .. } | Edge::Diffed { i, .. } => mask |= 1 << i,
                Edge::Merged { i, j, .. } => mask |= (1 << i) | (1 << j),
                _ => {}
            }
        }
        let mut edges: Vec<Edge> = Vec::new();
        for i in 0..n {
            if mask & (1 << i) == 0 {
                edges.push(Edge::One { i, v2: false });
            }
        }
        if used < budget {
            let use_v2 = kinds & K_V2 != 0;
            for i in 0..n {
                if mask & (1 << i) == 0 {
                    if use_v2 {
                        edges.push(Edge::One { i, v2: true });
                    }
                    if kinds & K_DIFF != 0 {
                        edges.push(Edge::Diffed { i, v2: false });
                        if use_v2 {
                            edges.push(Edge::Diffed { i, v2: true });
                        }
                    }
                    if kinds & K_MERGE != 0 {
                        for j in (i + 1)..n {
                            if mask & (1 << j) == 0 {
                                edges.push(Edge::Merged { i, j, v2: false });
                                if use_v2 {
                                    edges.push(Edge::Merged { i, j, v2: true });
                                }
                            }
                        }
                    }
                } else {
                    if kinds & K_DUP != 0 {
                        edges.push(Edge::Dup { i });
                    }
                    // a duplicate can also arrive merged with something new
                    if kinds & K_MERGE != 0 && kinds & K_DUP != 0 {
                        for j in 0..n {
                            if mask & (1 << j) == 0 {
                                edges.push(Edge::Merged {
                                    i: i.min(j),
                                    j: i.max(j),
                                    v2: false,
                                });
                            }
                        }
                    }
                }
            }
            if kinds & K_RELAY != 0 && (mask != base_mask || !path.is_empty()) {
                if !matches!(path.last(), Some(Edge::Relay { .. })) {
                    edges.push(Edge::Relay { v2: false });
                    if use_v2 {
                        edges.push(Edge::Relay { v2: true });
                    }
                }
            }
        }
        edges.sort_by_key(|e| serde_json::to_string(e).unwrap());
        edges.dedup();
        for e in edges {
            let mut p2 = path.clone();
            p2.push(e.clone());
            let used2 = used + if e.is_deviation() { 1 } else { 0 };
            let cj = || case(&p2);
            let res = ctx.exec(&cj, |ctx| -> Result<Receiver, String> {
                let mut r = base()?;
                for e in &p2 {
                    ctx.count("transitions", 1);
                    r.apply_edge(pool, e)?;
                }
                Ok(r)
            });
            let r = match res {
                Some(Ok(r)) => r,
                Some(Err(msg)) => {
                    ctx.violation(
                        "delivery-executes",
                        &format!("delivery-error:{}", msg.split(':').next().unwrap_or("")),
                        format!("applying a legitimate payload failed: {}", msg),
                        cj(),
                    );
                    continue;
                }
                None => continue,
            };
            if receiver_made_own_deletions(&pool_ds, r.mask, r.rep()) {
                // the receiver cleaned up formatting marks on its own account: outside the pool's model
                ctx.count("receiver_own_cleanup_pruned", 1);
                continue;
            }
            ctx.count("lattice_edges", 1);
            let node = LatticeNode {
                recv: &r,
                path: &p2,
                mask: r.mask,
                full: r.mask == full_mask,
                closed: closed(pool, r.mask),
            };
            visit(ctx, &node);
            let key = (r.mask, r.rep().store_hash(), used2);
            if seen.insert(key, ()).is_none() {
                ctx.count("lattice_nodes", 1);
                if r.mask != full_mask || used2 < budget {
                    queue.push_back((p2, used2));
                }
            }
        }
    }
}

/// compact human-readable rendering of the internal dump (diagnostics only)
pub fn show_store(d: &yrs::verif::StoreDump) -> String {
    use yrs::verif::BlockKind;
    let mut s = String::new();
    for (c, blocks) in &d.clients {
        s.push_str(&format!("  client {}:", c));
        for b in blocks {
            match b.kind {
                BlockKind::GC => s.push_str(&format!(" GC[{}+{}]", b.id.1, b.len)),
                BlockKind::Skip => s.push_str(&format!(" SKIP[{}+{}]", b.id.1, b.len)),
                BlockKind::Item => {
                    let p = |x: &Option<(u64, u32)>| match x {
                        Some((c, k)) => format!("{}:{}", c, k),
                        None => "-".into(),
                    };
                    s.push_str(&format!(
                        " [{}+{} {}{}{} o={} ro={} l={} r={}{}{}]",
                        b.id.1,
                        b.len,
                        if b.deleted { "~" } else { "" },
                        b.content,
                        if b.keep { " keep" } else { "" },
                        p(&b.origin),
                        p(&b.right_origin),
                        p(&b.left),
                        p(&b.right),
                        match &b.parent_sub {
                            Some(k) => format!(" key={}", k),
                            None => String::new(),
                        },
                        match &b.parent {
                            yrs::verif::ParentDump::Root(n) => format!(" in={}", n),
                            yrs::verif::ParentDump::Nested(i) => format!(" in={}:{}", i.0, i.1),
                            _ => " in=?".into(),
                        }
                    ));
                }
            }
        }
        s.push('\n');
    }
    if !d.skips.is_empty() {
        s.push_str(&format!("  skips: {:?}\n", d.skips));
    }
    if d.has_pending {
        s.push_str(&format!(
            "  pending: missing={:?} blocks={:?} ds={:?}\n",
            d.pending_missing,
            d.pending_blocks
                .iter()
                .map(|(c, b)| (*c, b.iter().map(|x| (x.id.1, x.len)).collect::<Vec<_>>()))
                .collect::<Vec<_>>(),
            d.pending_update_ds
        ));
    }
    if d.has_pending_ds {
        s.push_str(&format!("  pending_ds: {:?}\n", d.pending_ds));
    }
    s
}

/// Does the emitted event delete ids that the applied update did not delete, other than
/// map/attribute entries that lost on integration (those deletions are implied by the writes
/// themselves and are repeated by every replica that integrates both)? What remains are
/// formatting marks removed by the receiver's automatic clean-up: operations of its own.
pub fn extra_deletes(applied_v1: &[u8], event_v1: &[u8], rep: &Replica) -> Result<bool, String> {
    let a = Update::decode_v1(applied_v1).map_err(|e| format!("decode error: {}", e))?;
    let e = Update::decode_v1(event_v1).map_err(|e| format!("event decode error: {}", e))?;
    let da = yrs::verif::update_dump(&a).delete_set;
    let de = yrs::verif::update_dump(&e).delete_set;
    let pts = |v: &Vec<(u64, u32, u32)>| -> BTreeSet<(u64, u32)> {
        v.iter()
            .flat_map(|(c, s, e)| (*s..*e).map(move |k| (*c, k)))
            .collect()
    };
    let pa = pts(&da);
    let extra: Vec<(u64, u32)> = pts(&de).into_iter().filter(|p| !pa.contains(p)).collect();
    if extra.is_empty() {
        return Ok(false);
    }
    let sd = rep.store_dump();
    for p in extra {
        for (c, list) in &sd.clients {
            if *c != p.0 {
                continue;
            }
            for b in list {
                if b.id.1 <= p.1 && p.1 < b.id.1 + b.len {
                    if b.kind == yrs::verif::BlockKind::Item && b.parent_sub.is_none() {
                        return Ok(true);
                    }
                }
            }
        }
    }
    Ok(false)
}
