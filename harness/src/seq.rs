//! Item sequence of a branch (with tombstones) from the verif hook's store dump, and
//! tag extraction from the visible dump.
use crate::model::*;
use std::collections::HashMap;
use yrs::verif::{BlockDump, BlockKind, BranchDump, ParentDump, StoreDump};

#[derive(Clone, Debug, PartialEq, Eq)]
pub struct SeqElem {
    pub id: (u64, u32),
    pub tag: String,
    pub deleted: bool,
    pub countable: bool,
    pub content_ref: u8,
}

pub fn find_root<'a>(d: &'a StoreDump, name: &str) -> Option<&'a BranchDump> {
    d.roots.iter().find(|b| b.name.as_deref() == Some(name))
}

pub fn block_index(d: &StoreDump) -> HashMap<(u64, u32), &BlockDump> {
    let mut m = HashMap::new();
    for (_, list) in &d.clients {
        for b in list {
            if b.kind == BlockKind::Item {
                m.insert(b.id, b);
            }
        }
    }
    m
}

/// all units of the sequence starting at `start`, in list order, one entry per clock unit
pub fn sequence(d: &StoreDump, start: Option<(u64, u32)>) -> Result<Vec<SeqElem>, String> {
    let idx = block_index(d);
    let mut out = Vec::new();
    let mut cur = start;
    let mut guard = 0;
    let mut prev: Option<(u64, u32)> = None;
    while let Some(id) = cur {
        guard += 1;
        if guard > 10_000 {
            return Err("item list does not terminate (cycle)".into());
        }
        let b = idx
            .get(&id)
            .ok_or_else(|| format!("list pointer {:?} does not point at the start of a block", id))?;
        if b.left != prev && !(prev.is_none() && b.left.is_none()) {
            // left pointer must point at the previous block (its first id)
            return Err(format!(
                "asymmetric links: block {:?} has left={:?} but is reached from {:?}",
                b.id, b.left, prev
            ));
        }
        for k in 0..b.len {
            out.push(SeqElem {
                id: (b.id.0, b.id.1 + k),
                tag: b.elems.get(k as usize).cloned().unwrap_or_default(),
                deleted: b.deleted,
                countable: b.countable,
                content_ref: b.content_ref,
            });
        }
        prev = Some(b.id);
        cur = b.right;
    }
    Ok(out)
}

pub fn root_sequence(d: &StoreDump, name: &str) -> Result<Vec<SeqElem>, String> {
    match find_root(d, name) {
        Some(b) => sequence(d, b.start),
        None => Ok(Vec::new()),
    }
}

/// is id covered by an integrated (non-skip) block?
pub fn integrated(d: &StoreDump, id: (u64, u32)) -> bool {
    for (c, list) in &d.clients {
        if *c != id.0 {
            continue;
        }
        for b in list {
            if b.kind != BlockKind::Skip && b.id.1 <= id.1 && id.1 < b.id.1 + b.len {
                return true;
            }
        }
    }
    false
}

/// tags of the visible elements of a root sequence, read through the public API dump.
/// text: one tag per char / embed; array: printable value; xml: element tag (text nodes "#text")
pub fn visible_tags(n: &Node) -> Vec<String> {
    match n {
        Node::Text(units) => units
            .iter()
            .map(|u| match &u.c {
                UnitC::Ch(c) => c.to_string(),
                UnitC::Embed(a) => format!("embed({})", a.to_any()),
                UnitC::Node(n) => n.show(),
            })
            .collect(),
        Node::Array(v) => v
            .iter()
            .map(|e| match e {
                Node::Any(a) => a.to_any().to_string(),
                other => format!("<{}>", other.show()),
            })
            .collect(),
        Node::XmlFragment(c) => c
            .iter()
            .map(|e| match e {
                Node::XmlElement { tag, .. } => tag.clone(),
                _ => "#text".to_string(),
            })
            .collect(),
        _ => Vec::new(),
    }
}

pub fn parent_is_root(b: &BlockDump, name: &str) -> bool {
    matches!(&b.parent, ParentDump::Root(n) if n == name)
}
