//! Counting / capping global allocator. Inactive unless armed around a measured call.
use std::alloc::{GlobalAlloc, Layout, System};
use std::sync::atomic::{AtomicBool, AtomicUsize, Ordering};

pub struct Counting;

static ARMED: AtomicBool = AtomicBool::new(false);
static CUR: AtomicUsize = AtomicUsize::new(0);
static PEAK: AtomicUsize = AtomicUsize::new(0);
static MAX_SINGLE: AtomicUsize = AtomicUsize::new(0);
/// hard caps: beyond these the process aborts (the supervisor turns that into a verdict)
const HARD_SINGLE: usize = 512 << 20;
const HARD_TOTAL: usize = 1 << 30;

unsafe impl GlobalAlloc for Counting {
    unsafe fn alloc(&self, l: Layout) -> *mut u8 {
        if ARMED.load(Ordering::Relaxed) {
            let sz = l.size();
            let cur = CUR.fetch_add(sz, Ordering::Relaxed) + sz;
            PEAK.fetch_max(cur, Ordering::Relaxed);
            MAX_SINGLE.fetch_max(sz, Ordering::Relaxed);
            if sz > HARD_SINGLE || cur > HARD_TOTAL {
                ARMED.store(false, Ordering::Relaxed);
                use std::io::Write;
                let _ = std::io::stderr().write_all(b"ALLOC-CAP: allocation beyond the hard cap\n");
                std::process::abort();
            }
        }
        System.alloc(l)
    }
    unsafe fn dealloc(&self, p: *mut u8, l: Layout) {
        if ARMED.load(Ordering::Relaxed) {
            let _ = CUR.fetch_update(Ordering::Relaxed, Ordering::Relaxed, |c| Some(c.saturating_sub(l.size())));
        }
        System.dealloc(p, l)
    }
    unsafe fn realloc(&self, p: *mut u8, l: Layout, new: usize) -> *mut u8 {
        if ARMED.load(Ordering::Relaxed) {
            if new > l.size() {
                let d = new - l.size();
                let cur = CUR.fetch_add(d, Ordering::Relaxed) + d;
                PEAK.fetch_max(cur, Ordering::Relaxed);
                MAX_SINGLE.fetch_max(new, Ordering::Relaxed);
                if new > HARD_SINGLE || cur > HARD_TOTAL {
                    ARMED.store(false, Ordering::Relaxed);
                    use std::io::Write;
                    let _ = std::io::stderr().write_all(b"ALLOC-CAP: allocation beyond the hard cap\n");
                    std::process::abort();
                }
            } else {
                let d = l.size() - new;
                let _ = CUR.fetch_update(Ordering::Relaxed, Ordering::Relaxed, |c| Some(c.saturating_sub(d)));
            }
        }
        System.realloc(p, l, new)
    }
}

/// run `f` with allocation accounting; returns (result, peak bytes live above the start, largest single request)
pub fn measured<T>(f: impl FnOnce() -> T) -> (T, usize, usize) {
    CUR.store(0, Ordering::Relaxed);
    PEAK.store(0, Ordering::Relaxed);
    MAX_SINGLE.store(0, Ordering::Relaxed);
    ARMED.store(true, Ordering::Relaxed);
    let r = f();
    ARMED.store(false, Ordering::Relaxed);
    (r, PEAK.load(Ordering::Relaxed), MAX_SINGLE.load(Ordering::Relaxed))
}

pub fn disarm() {
    ARMED.store(false, Ordering::Relaxed);
}
