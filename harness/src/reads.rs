//! C17 oracle: every way of reading a shared type tells the same story.
use crate::dump::*;
use crate::model::*;
use std::collections::{BTreeMap, BTreeSet};
use yrs::types::text::YChange;
use yrs::types::ToJson;
use yrs::{
    Any, Array, ArrayRef, GetString, Map, MapRef, OffsetKind, Out, ReadTxn, Text, TextRef, Xml,
    XmlElementRef, XmlFragment, XmlFragmentRef, XmlOut, XmlTextRef,
};

pub type Errs = Vec<(String, String)>;

fn err(errs: &mut Errs, class: &str, msg: String) {
    if errs.len() < 4 {
        errs.push((class.to_string(), msg));
    }
}

pub fn check_out<T: ReadTxn>(txn: &T, o: &Out, kind: OffsetKind, path: &str, errs: &mut Errs) {
    match o {
        Out::YArray(a) => check_array(txn, a, kind, path, errs),
        Out::YMap(m) => check_map(txn, m, kind, path, errs),
        Out::YText(t) => check_text(txn, t, kind, path, errs),
        Out::YXmlFragment(f) => check_xml_container(txn, f, None, kind, path, errs),
        Out::YXmlElement(e) => {
            let f: &XmlFragmentRef = e.as_ref();
            check_xml_container(txn, f, Some(e), kind, path, errs)
        }
        Out::YXmlText(t) => check_xml_text(txn, t, kind, path, errs),
        _ => {}
    }
}

fn any_json_len(a: &Any) -> Option<usize> {
    match a {
        Any::Array(v) => Some(v.len()),
        Any::Map(m) => Some(m.len()),
        _ => None,
    }
}

pub fn check_array<T: ReadTxn>(txn: &T, a: &ArrayRef, kind: OffsetKind, path: &str, errs: &mut Errs) {
    let len = a.len(txn) as usize;
    let items: Vec<Out> = a.iter(txn).collect();
    if items.len() != len {
        err(errs, "array-len-vs-iter", format!("{}: len()={} but iter() yields {}", path, len, items.len()));
    }
    let json = a.to_json(txn);
    if any_json_len(&json) != Some(len) {
        err(errs, "array-len-vs-to_json", format!("{}: len()={} but to_json()={}", path, len, json));
    }
    for i in 0..items.len().max(len) {
        let g = a.get(txn, i as u32);
        let it = items.get(i);
        let gd = g.as_ref().map(|o| dump_out(txn, o));
        let id = it.map(|o| dump_out(txn, o));
        if gd != id {
            err(
                errs,
                "array-get-vs-iter",
                format!("{}: get({})={:?} but iter().nth({})={:?}", path, i, gd.map(|n| n.show()), i, id.map(|n| n.show())),
            );
        }
    }
    for i in [len, len + 1] {
        if let Some(o) = a.get(txn, i as u32) {
            err(errs, "array-get-out-of-range", format!("{}: get({}) with len {} returned {}", path, i, len, dump_out(txn, &o).show()));
        }
    }
    // to_json elements of primitives equal the iterated values
    if let Any::Array(v) = &json {
        for (i, (j, o)) in v.iter().zip(items.iter()).enumerate() {
            if let Out::Any(x) = o {
                if AnyV::from_any(x) != AnyV::from_any(j) {
                    err(errs, "array-to_json-vs-iter", format!("{}: to_json()[{}]={} but iter gives {}", path, i, j, x));
                }
            }
        }
    }
    for (i, o) in items.iter().enumerate() {
        check_out(txn, o, kind, &format!("{}[{}]", path, i), errs);
    }
}

pub fn check_map<T: ReadTxn>(txn: &T, m: &MapRef, kind: OffsetKind, path: &str, errs: &mut Errs) {
    let len = m.len(txn) as usize;
    let keys: Vec<String> = m.keys(txn).map(|k| k.to_string()).collect();
    let vals: Vec<Out> = m.values(txn).flatten().collect();
    let entries: Vec<(String, Out)> = m.iter(txn).map(|(k, v)| (k.to_string(), v)).collect();
    let json = m.to_json(txn);
    if keys.len() != len || entries.len() != len || any_json_len(&json) != Some(len) {
        err(
            errs,
            "map-len-mismatch",
            format!(
                "{}: len()={} keys={} iter={} to_json={}",
                path,
                len,
                keys.len(),
                entries.len(),
                json
            ),
        );
    }
    let kset: BTreeSet<&String> = keys.iter().collect();
    if kset.len() != keys.len() {
        err(errs, "map-duplicate-key", format!("{}: keys() yields duplicates {:?}", path, keys));
    }
    let eset: BTreeSet<&String> = entries.iter().map(|(k, _)| k).collect();
    if eset != kset {
        err(errs, "map-keys-vs-iter", format!("{}: keys()={:?} iter keys={:?}", path, kset, eset));
    }
    let mut probe: Vec<String> = keys.clone();
    for k in ["k1", "k2", "k3", "p"] {
        probe.push(k.to_string());
    }
    for k in probe {
        let c = m.contains_key(txn, &k);
        let g = m.get(txn, &k);
        let ink = kset.contains(&k);
        if c != g.is_some() || c != ink {
            err(
                errs,
                "map-contains-get-keys",
                format!("{}: key {:?}: contains_key={} get.is_some={} in keys()={}", path, k, c, g.is_some(), ink),
            );
        }
        if let Some(g) = g {
            let from_iter = entries.iter().find(|(kk, _)| *kk == k).map(|(_, v)| dump_out(txn, v));
            if Some(dump_out(txn, &g)) != from_iter {
                err(errs, "map-get-vs-iter", format!("{}: get({:?}) differs from the iterated entry", path, k));
            }
            if let (Out::Any(x), Any::Map(jm)) = (&g, &json) {
                if jm.get(&k).map(AnyV::from_any) != Some(AnyV::from_any(x)) {
                    err(errs, "map-to_json-vs-get", format!("{}: to_json()[{:?}]={:?} but get gives {}", path, k, jm.get(&k), x));
                }
            }
        }
    }
    let mut vd: Vec<Node> = vals.iter().map(|o| dump_out(txn, o)).collect();
    let mut ed: Vec<Node> = entries.iter().map(|(_, o)| dump_out(txn, o)).collect();
    vd.sort();
    ed.sort();
    if vd != ed {
        err(errs, "map-values-vs-iter", format!("{}: values() and iter() describe different values", path));
    }
    for (k, o) in entries.iter() {
        check_out(txn, o, kind, &format!("{}.{}", path, k), errs);
    }
}

fn check_text_like<T: ReadTxn, X: Text + GetString>(
    txn: &T,
    t: &X,
    plain_string: Option<String>,
    kind: OffsetKind,
    path: &str,
    errs: &mut Errs,
) {
    let len = t.len(txn);
    let diff = t.diff(txn, YChange::identity);
    let mut concat = String::new();
    let mut embeds = 0u32;
    for d in &diff {
        match &d.insert {
            Out::Any(Any::String(s)) => concat.push_str(s),
            _ => embeds += 1,
        }
    }
    if let Some(s) = plain_string {
        if s != concat {
            err(errs, "text-diff-vs-get_string", format!("{}: concatenated diff chunks {:?} but get_string {:?}", path, concat, s));
        }
        let want = str_len(&s, kind) + embeds;
        if want != len {
            err(
                errs,
                "text-len-vs-get_string",
                format!("{}: len()={} but get_string {:?} has {} units + {} embeds ({:?})", path, len, s, str_len(&s, kind), embeds, kind),
            );
        }
    } else {
        let want = str_len(&concat, kind) + embeds;
        if want != len {
            err(errs, "text-len-vs-diff", format!("{}: len()={} but diff has {} units + {} embeds", path, len, str_len(&concat, kind), embeds));
        }
    }
    for (i, d) in diff.iter().enumerate() {
        match &d.insert {
            Out::Any(_) => {}
            other => check_out(txn, other, kind, &format!("{}<{}>", path, i), errs),
        }
    }
}

pub fn check_text<T: ReadTxn>(txn: &T, t: &TextRef, kind: OffsetKind, path: &str, errs: &mut Errs) {
    let s = t.get_string(txn);
    check_text_like(txn, t, Some(s), kind, path, errs);
}

pub fn check_xml_text<T: ReadTxn>(txn: &T, t: &XmlTextRef, kind: OffsetKind, path: &str, errs: &mut Errs) {
    check_text_like(txn, t, None, kind, path, errs);
}

fn xml_id(x: &XmlOut) -> String {
    format!("{:?}", x.id())
}

pub fn check_xml_container<T: ReadTxn>(
    txn: &T,
    f: &XmlFragmentRef,
    elem: Option<&XmlElementRef>,
    kind: OffsetKind,
    path: &str,
    errs: &mut Errs,
) {
    let len = f.len(txn) as usize;
    let children: Vec<XmlOut> = f.children(txn).collect();
    if children.len() != len {
        err(errs, "xml-len-vs-children", format!("{}: len()={} but children() yields {}", path, len, children.len()));
    }
    let first = f.first_child().map(|x| xml_id(&x));
    let get0 = f.get(txn, 0).map(|x| xml_id(&x));
    let c0 = children.first().map(xml_id);
    if first != get0 || first != c0 {
        err(errs, "xml-first-child", format!("{}: first_child={:?} get(0)={:?} children[0]={:?}", path, first, get0, c0));
    }
    let ids: Vec<String> = children.iter().map(xml_id).collect();
    for i in 0..children.len().max(len) {
        let g = f.get(txn, i as u32).map(|x| xml_id(&x));
        if g.as_ref() != ids.get(i) {
            err(errs, "xml-get-vs-children", format!("{}: get({})={:?} but children[{}]={:?}", path, i, g, i, ids.get(i)));
        }
    }
    if f.get(txn, len as u32).is_some() {
        err(errs, "xml-get-out-of-range", format!("{}: get(len) returned a node", path));
    }
    let self_id = match elem {
        Some(e) => format!("{:?}", yrs::branch::BranchPtr::from(<XmlElementRef as AsRef<yrs::branch::Branch>>::as_ref(e)).id()),
        None => format!("{:?}", yrs::branch::BranchPtr::from(<XmlFragmentRef as AsRef<yrs::branch::Branch>>::as_ref(f)).id()),
    };
    for (i, c) in children.iter().enumerate() {
        // parent
        let p = match c {
            XmlOut::Element(e) => e.parent(),
            XmlOut::Text(t) => t.parent(),
            XmlOut::Fragment(_) => None,
        };
        let pid = p.as_ref().map(xml_id);
        if pid.as_deref() != Some(self_id.as_str()) {
            err(errs, "xml-parent", format!("{}: child {} reports parent {:?}, container is {}", path, i, pid, self_id));
        }
        // siblings forward / backward
        let (fwd, back): (Vec<String>, Vec<String>) = match c {
            XmlOut::Element(e) => (
                e.siblings(txn).map(|x| xml_id(&x)).collect(),
                e.siblings(txn).rev().map(|x| xml_id(&x)).collect(),
            ),
            XmlOut::Text(t) => (
                t.siblings(txn).map(|x| xml_id(&x)).collect(),
                t.siblings(txn).rev().map(|x| xml_id(&x)).collect(),
            ),
            XmlOut::Fragment(_) => (vec![], vec![]),
        };
        let want_f: Vec<String> = ids[i + 1..].to_vec();
        let mut want_b: Vec<String> = ids[..i].to_vec();
        want_b.reverse();
        if fwd != want_f || back != want_b {
            err(
                errs,
                "xml-siblings",
                format!("{}: child {}: siblings fwd={:?} back={:?} but children say fwd={:?} back={:?}", path, i, fwd, back, want_f, want_b),
            );
        }
    }
    // successors == pre-order over children
    let mut want = Vec::new();
    preorder(txn, f, &mut want);
    let got: Vec<String> = f.successors(txn).map(|x| xml_id(&x)).collect();
    if got != want {
        err(errs, "xml-successors", format!("{}: successors()={:?} but pre-order over children()={:?}", path, got, want));
    }
    // rendered string parsed back == API tree (root containers only: avoids quadratic work)
    if elem.is_none() {
        let api = Node::XmlFragment(children.iter().map(|c| dump_xml_out(txn, c)).collect());
        let rendered = f.get_string(txn);
        match parse_xml(&rendered) {
            Ok(parsed) => {
                let a = norm_children(match &api {
                    Node::XmlFragment(c) => c,
                    _ => unreachable!(),
                });
                if a != parsed {
                    err(errs, "xml-string-vs-tree", format!("{}: get_string()={:?} parses to {:?} but the API tree is {:?}", path, rendered, parsed, a));
                }
            }
            Err(e) => err(errs, "xml-string-unparsable", format!("{}: get_string()={:?}: {}", path, rendered, e)),
        }
    }
    for (i, c) in children.iter().enumerate() {
        match c {
            XmlOut::Element(e) => {
                let ff: &XmlFragmentRef = e.as_ref();
                check_xml_container(txn, ff, Some(e), kind, &format!("{}/{}", path, i), errs)
            }
            XmlOut::Text(t) => check_xml_text(txn, t, kind, &format!("{}/{}", path, i), errs),
            _ => {}
        }
    }
}

fn preorder<T: ReadTxn>(txn: &T, f: &XmlFragmentRef, out: &mut Vec<String>) {
    for c in f.children(txn) {
        out.push(xml_id(&c));
        if let XmlOut::Element(e) = &c {
            let ff: &XmlFragmentRef = e.as_ref();
            preorder(txn, ff, out);
        }
    }
}

// --- tiny XML reader for the rendered form -------------------------------------------------

#[derive(Clone, Debug, PartialEq, Eq)]
pub enum PNode {
    Elem {
        tag: String,
        attrs: BTreeMap<String, String>,
        children: Vec<PNode>,
    },
    /// (char, formatting keys in effect)
    Text(Vec<(char, BTreeSet<String>)>),
}

fn is_fmt_tag(t: &str) -> bool {
    t == "b" || t == "i"
}

pub fn parse_xml(s: &str) -> Result<Vec<PNode>, String> {
    let chars: Vec<char> = s.chars().collect();
    let mut pos = 0usize;
    let mut fmt: Vec<String> = Vec::new();
    let out = parse_nodes(&chars, &mut pos, None, &mut fmt)?;
    if pos != chars.len() {
        return Err(format!("trailing input at {}", pos));
    }
    Ok(merge_text(out))
}

fn merge_text(v: Vec<PNode>) -> Vec<PNode> {
    let mut out: Vec<PNode> = Vec::new();
    for n in v {
        match (out.last_mut(), n) {
            (Some(PNode::Text(a)), PNode::Text(b)) => a.extend(b),
            (_, PNode::Text(b)) if b.is_empty() => {}
            (_, n) => out.push(n),
        }
    }
    out
}

fn parse_nodes(
    c: &[char],
    pos: &mut usize,
    until: Option<&str>,
    fmt: &mut Vec<String>,
) -> Result<Vec<PNode>, String> {
    let mut out = Vec::new();
    loop {
        if *pos >= c.len() {
            return if until.is_none() {
                Ok(out)
            } else {
                Err(format!("missing </{}>", until.unwrap()))
            };
        }
        if c[*pos] == '<' {
            if *pos + 1 < c.len() && c[*pos + 1] == '/' {
                let mut j = *pos + 2;
                let mut name = String::new();
                while j < c.len() && c[j] != '>' {
                    name.push(c[j]);
                    j += 1;
                }
                if Some(name.as_str()) == until {
                    *pos = j + 1;
                    return Ok(out);
                }
                return Err(format!("unexpected </{}>", name));
            }
            let mut j = *pos + 1;
            let mut head = String::new();
            while j < c.len() && c[j] != '>' {
                head.push(c[j]);
                j += 1;
            }
            if j >= c.len() {
                return Err("unterminated tag".into());
            }
            *pos = j + 1;
            let mut parts = head.split(' ');
            let tag = parts.next().unwrap_or("").to_string();
            let mut attrs = BTreeMap::new();
            for p in parts {
                if let Some((k, v)) = p.split_once('=') {
                    attrs.insert(k.to_string(), v.trim_matches('"').to_string());
                }
            }
            if is_fmt_tag(&tag) {
                fmt.push(tag.clone());
                let inner = parse_nodes(c, pos, Some(&tag), fmt)?;
                fmt.pop();
                out.extend(inner);
            } else {
                let mut f2 = Vec::new();
                let children = parse_nodes(c, pos, Some(&tag), &mut f2)?;
                out.push(PNode::Elem {
                    tag,
                    attrs,
                    children: merge_text(children),
                });
            }
        } else {
            let set: BTreeSet<String> = fmt.iter().cloned().collect();
            out.push(PNode::Text(vec![(c[*pos], set)]));
            *pos += 1;
        }
    }
}

/// API tree in the same normal form as the parsed string (adjacent text nodes merged, node-level
/// attributes of text nodes dropped — the renderer does not print them)
pub fn norm_children(children: &[Node]) -> Vec<PNode> {
    let mut out = Vec::new();
    for n in children {
        match n {
            Node::XmlElement {
                tag,
                attrs,
                children,
            } => out.push(PNode::Elem {
                tag: tag.clone(),
                attrs: attrs
                    .iter()
                    .map(|(k, v)| {
                        (
                            k.clone(),
                            match v {
                                Node::Any(AnyV::Str(s)) => s.clone(),
                                other => other.show(),
                            },
                        )
                    })
                    .collect(),
                children: norm_children(children),
            }),
            Node::XmlText { units, .. } => out.push(PNode::Text(
                units
                    .iter()
                    .filter_map(|u| match &u.c {
                        UnitC::Ch(c) => Some((*c, u.attrs.keys().cloned().collect())),
                        _ => None,
                    })
                    .collect(),
            )),
            _ => {}
        }
    }
    merge_text(out)
}
